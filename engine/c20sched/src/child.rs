//! Child process of the C20 explorer: runs ONE schedule (a sequence of scheduling choices) of a
//! scenario on the real `get_or_create` functions, under a cooperative scheduler driven by the
//! `cdshealpix::verif` hook points, for one or several depths in turn (the lazily initialised
//! statics cannot be reset, but every depth has its own slot).
//!
//! Exactly one worker thread runs between two hook points.  A thread arriving at "before
//! call_once" while another thread is inside the initialisation closure of the same (table, depth)
//! is disabled until that closure has returned: this models the blocking of `std::sync::Once`,
//! the only blocking primitive involved.
//!
//! Happens-before monitor: vector clocks advanced ONLY by program order and by the release /
//! acquire edge of `Once` (closure end -> every call_once return that observes completion) -- not by
//! the hand-offs of the scheduler.  A read of a slot that is not ordered with the write of that
//! slot by another thread is a data race (reported in both directions).

use cdshealpix::verif as vh;
use serde_json::{json, Value};
use std::cell::Cell;
use std::collections::HashMap;
use std::sync::{Condvar, Mutex};
use std::time::{Duration, Instant};

#[derive(Clone, Debug, PartialEq)]
enum St {
  Unregistered,
  NotStarted,
  Parked(u8, u8, u8), // table, point, depth
  Running,
  Finished,
}

#[derive(Default, Clone)]
struct OnceSt {
  in_progress: Option<usize>,
  complete: bool,
  release_clock: Vec<u32>,
}

struct Sched {
  n: usize,
  status: Vec<St>,
  turn: Option<usize>,
  prefix: Vec<usize>,
  /// alternative to `prefix`: the thread to run at each decision (model-trace replay)
  order: Option<Vec<usize>>,
  choice_idx: usize,
  points: Vec<Value>,
  events: Vec<(usize, u8, u8, u8)>,
  once: HashMap<(u8, u8), OnceSt>,
  vc: Vec<Vec<u32>>,
  /// per slot: writes (thread, clock at the write)
  writes: HashMap<(u8, u8), Vec<(usize, Vec<u32>)>>,
  /// per slot: reads (thread, clock at the read, point)
  reads: HashMap<(u8, u8), Vec<(usize, Vec<u32>, u8)>>,
  /// thread has a pending read to perform when it is resumed from this point
  races: Vec<String>,
  deadlock: bool,
  diverged: Option<String>,
  done: bool,
  last_running: Option<usize>,
  preemptions: usize,
}

static SCHED: Mutex<Option<Sched>> = Mutex::new(None);
static CV: Condvar = Condvar::new();

thread_local! {
  static TID: Cell<Option<usize>> = Cell::new(None);
}

fn hb(a: &[u32], a_tid: usize, b: &[u32]) -> bool {
  // event with clock a (by thread a_tid) happens-before the event with clock b
  a[a_tid] <= b[a_tid]
}

impl Sched {
  fn enabled(&self, t: usize) -> bool {
    match &self.status[t] {
      St::NotStarted => true,
      St::Parked(table, point, depth) => {
        if *point == vh::P_BEFORE_ONCE {
          match self.once.get(&(*table, *depth)) {
            Some(o) => o.in_progress.is_none() || o.in_progress == Some(t),
            None => true,
          }
        } else {
          true
        }
      }
      _ => false,
    }
  }

  /// Pick the next thread to run (the caller has just parked / finished, or is the main thread).
  fn schedule_next(&mut self, running: Option<usize>) {
    let mut en: Vec<usize> = vec![];
    if let Some(r) = running {
      if self.enabled(r) {
        en.push(r);
      }
    }
    for t in 0..self.n {
      if Some(t) != running && self.enabled(t) {
        en.push(t);
      }
    }
    if en.is_empty() {
      if self.status.iter().all(|s| *s == St::Finished) {
        self.done = true;
      } else {
        self.deadlock = true;
        self.done = true;
      }
      self.turn = None;
      return;
    }
    let choice = if let Some(order) = &self.order {
      if self.choice_idx < order.len() {
        match en.iter().position(|&t| t == order[self.choice_idx]) {
          Some(p) => p,
          None => {
            self.diverged = Some(format!("decision #{}: thread {} of the trace is not enabled (enabled: {:?})", self.choice_idx, order[self.choice_idx], en));
            self.done = true;
            self.turn = None;
            return;
          }
        }
      } else {
        0
      }
    } else if self.choice_idx < self.prefix.len() {
      self.prefix[self.choice_idx]
    } else {
      0
    };
    if choice >= en.len() {
      self.diverged = Some(format!("choice #{} = {} but only {} thread(s) enabled", self.choice_idx, choice, en.len()));
      self.done = true;
      self.turn = None;
      return;
    }
    let running_enabled = running.map(|r| en.first() == Some(&r)).unwrap_or(false);
    if running_enabled && choice != 0 {
      self.preemptions += 1;
    }
    self.points.push(json!({"enabled": en, "chosen": choice, "running_enabled": running_enabled}));
    self.choice_idx += 1;
    self.turn = Some(en[choice]);
    self.last_running = self.turn;
  }

  fn tick(&mut self, t: usize) {
    self.vc[t][t] += 1;
  }

  fn note_read(&mut self, t: usize, slot: (u8, u8), point: u8) {
    self.tick(t);
    let clock = self.vc[t].clone();
    if let Some(ws) = self.writes.get(&slot) {
      for (w, wc) in ws {
        if *w != t && !hb(wc, *w, &clock) {
          self.races.push(format!("thread {} reads slot (table {}, depth {}) at point {} without being ordered after the write of thread {}", t, slot.0, slot.1, point, w));
        }
      }
    }
    self.reads.entry(slot).or_default().push((t, clock, point));
  }

  fn note_write(&mut self, t: usize, slot: (u8, u8)) {
    self.tick(t);
    let clock = self.vc[t].clone();
    if let Some(rs) = self.reads.get(&slot) {
      for (r, rc, p) in rs {
        if *r != t && !hb(rc, *r, &clock) {
          self.races.push(format!("thread {} writes slot (table {}, depth {}) while the earlier read of thread {} (point {}) is not ordered before it", t, slot.0, slot.1, r, p));
        }
      }
    }
    if let Some(ws) = self.writes.get(&slot) {
      for (w, wc) in ws {
        if *w != t && !hb(wc, *w, &clock) {
          self.races.push(format!("threads {} and {} both write slot (table {}, depth {}) without ordering", w, t, slot.0, slot.1));
        }
      }
    }
    self.writes.entry(slot).or_default().push((t, clock));
  }

  /// Effects of thread t ARRIVING at a point (the code before the point has run).
  fn arrive(&mut self, t: usize, table: u8, point: u8, depth: u8) {
    let slot = (table, depth);
    self.events.push((t, table, point, depth));
    if point == vh::P_INIT_BEGIN {
      let o = self.once.entry(slot).or_default();
      o.in_progress = Some(t);
    } else if point == vh::P_INIT_END {
      // the slot has just been written
      self.note_write(t, slot);
    } else if point == vh::P_AFTER_ONCE {
      let o = self.once.entry(slot).or_default().clone();
      if o.in_progress == Some(t) {
        // the closure has returned: release
        self.tick(t);
        let clock = self.vc[t].clone();
        let o = self.once.get_mut(&slot).unwrap();
        o.in_progress = None;
        o.complete = true;
        o.release_clock = clock;
      } else if o.complete {
        // acquire
        let rc = o.release_clock.clone();
        for k in 0..self.n {
          if rc[k] > self.vc[t][k] {
            self.vc[t][k] = rc[k];
          }
        }
        self.tick(t);
      }
    }
  }

  /// Effects of thread t being RESUMED from a point (the code after the point runs next).
  fn resume(&mut self, t: usize, table: u8, point: u8, depth: u8) {
    if point == vh::P_FAST_READ || point == vh::P_FINAL_READ {
      self.note_read(t, (table, depth), point);
    }
  }
}

fn hook(table: u8, point: u8, depth: u8) {
  let tid = match TID.with(|t| t.get()) {
    Some(t) => t,
    None => return,
  };
  let mut g = SCHED.lock().unwrap();
  {
    let s = match g.as_mut() {
      Some(s) => s,
      None => return,
    };
    if s.done {
      return; // free running (after a deadlock / divergence was declared)
    }
    s.arrive(tid, table, point, depth);
    s.status[tid] = St::Parked(table, point, depth);
    s.schedule_next(Some(tid));
  }
  CV.notify_all();
  loop {
    {
      let s = g.as_mut().unwrap();
      if s.done && s.turn.is_none() && (s.deadlock || s.diverged.is_some()) {
        return; // let the thread run freely to its end
      }
      if s.turn == Some(tid) {
        s.status[tid] = St::Running;
        s.resume(tid, table, point, depth);
        return;
      }
    }
    g = CV.wait(g).unwrap();
  }
}

#[derive(Clone, Debug)]
pub struct Call {
  /// 0 = nested::get_or_create(depth) [Layer table], 1 = verif::c2v_get_or_create_addr(depth),
  /// 2 = largest_center_to_vertex_distance(depth, ..) (public entry to the C2V table)
  pub kind: u8,
  pub depth: u8,
}

fn do_call(c: &Call) -> usize {
  match c.kind {
    0 => cdshealpix::nested::get_or_create(c.depth) as *const cdshealpix::nested::Layer as usize,
    1 => vh::c2v_get_or_create_addr(c.depth),
    2 => {
      let v = cdshealpix::largest_center_to_vertex_distance(c.depth, 0.3, 0.2);
      v.to_bits() as usize
    }
    // the same helper at a polar-cap position off the central meridian, and the radius variant
    // across the transition latitude (other fields of the constants than kind 2)
    3 => {
      let v = cdshealpix::largest_center_to_vertex_distance(c.depth, 0.1, 1.2);
      v.to_bits() as usize
    }
    _ => {
      let v = cdshealpix::largest_center_to_vertex_distance_with_radius(c.depth, 1.3, 0.7, 0.05);
      v.to_bits() as usize
    }
  }
}

/// Results computed through the layer of a depth (single-threaded reference comparable).
pub fn layer_results(depth: u8) -> Value {
  let l = cdshealpix::nested::get_or_create(depth);
  let h = l.hash(1.0, 0.5);
  let c = l.center(h);
  let nb: Vec<u64> = l.neighbours(h, true).values_vec();
  // more cells for the neighbour masks: interior cells with high coordinate bits set
  let n4 = 1u64 << (2 * depth as u32);
  let probes: Vec<u64> = if depth >= 2 { vec![6 * n4 + n4 / 2 + 5, 2 * n4 + n4 - 6, 9 * n4 + (n4 - 1) / 3, 4 * n4 + 2 * ((n4 - 1) / 3) - 1] } else { vec![] };
  let nb_more: Vec<String> = probes.iter().map(|&p| l.neighbours(p, true).values_vec().iter().map(|x| x.to_string()).collect::<Vec<_>>().join(",")).collect();
  let d = depth.min(6);
  let cone = cdshealpix::nested::get_or_create(d).cone_coverage_approx(1.0, 0.5, 0.3);
  json!({
    "depth": depth, "n_hash": l.n_hash().to_string(), "hash": h.to_string(),
    "center": [format!("{:016x}", c.0.to_bits()), format!("{:016x}", c.1.to_bits())],
    "neighbours": nb.iter().map(|x| x.to_string()).collect::<Vec<_>>(),
    "neighbours_more": nb_more,
    "cone_cells": cone.entries.len(), "cone_first": cone.entries.first().map(|x| x.to_string()),
    "c2v": format!("{:016x}", cdshealpix::largest_center_to_vertex_distance(depth, 0.3, 0.2).to_bits()),
    "c2v_polar": format!("{:016x}", cdshealpix::largest_center_to_vertex_distance(depth, 0.1, 1.2).to_bits()),
    "c2v_radius": format!("{:016x}", cdshealpix::largest_center_to_vertex_distance_with_radius(depth, 1.3, 0.7, 0.05).to_bits()),
  })
}

/// Run one schedule: `programs[t]` = the calls of thread t.  Returns the JSON report.
pub fn run_schedule(programs: &[Vec<Call>], prefix: &[usize], order: Option<Vec<usize>>) -> Value {
  let n = programs.len();
  {
    let mut g = SCHED.lock().unwrap();
    *g = Some(Sched {
      n,
      status: vec![St::Unregistered; n],
      turn: None,
      prefix: prefix.to_vec(),
      order,
      choice_idx: 0,
      points: vec![],
      events: vec![],
      once: HashMap::new(),
      vc: vec![vec![0; n]; n],
      writes: HashMap::new(),
      reads: HashMap::new(),
      races: vec![],
      deadlock: false,
      diverged: None,
      done: false,
      last_running: None,
      preemptions: 0,
    });
  }
  vh::set_hook(hook);
  let mut handles = vec![];
  for t in 0..n {
    let prog = programs[t].clone();
    handles.push(std::thread::spawn(move || {
      TID.with(|c| c.set(Some(t)));
      // register and wait for the first turn
      {
        let mut g = SCHED.lock().unwrap();
        g.as_mut().unwrap().status[t] = St::NotStarted;
        CV.notify_all();
        loop {
          {
            let s = g.as_mut().unwrap();
            if s.turn == Some(t) {
              s.status[t] = St::Running;
              break;
            }
            if s.done && s.turn.is_none() {
              break;
            }
          }
          g = CV.wait(g).unwrap();
        }
      }
      let res = std::panic::catch_unwind(|| {
        let mut out = vec![];
        for c in &prog {
          out.push(do_call(c));
        }
        out
      });
      // finished
      {
        let mut g = SCHED.lock().unwrap();
        let s = g.as_mut().unwrap();
        s.status[t] = St::Finished;
        if !s.done {
          s.schedule_next(None);
        }
      }
      CV.notify_all();
      TID.with(|c| c.set(None));
      match res {
        Ok(v) => Ok(v),
        Err(e) => Err(if let Some(s) = e.downcast_ref::<&str>() { s.to_string() } else if let Some(s) = e.downcast_ref::<String>() { s.clone() } else { "panic".to_string() }),
      }
    }));
  }
  // main: wait for registration, start, wait for the end
  let start = Instant::now();
  let mut hang = false;
  {
    let mut g = SCHED.lock().unwrap();
    while g.as_ref().unwrap().status.iter().any(|s| *s == St::Unregistered) {
      g = CV.wait(g).unwrap();
    }
    g.as_mut().unwrap().schedule_next(None);
    CV.notify_all();
    loop {
      if g.as_ref().unwrap().done {
        break;
      }
      let (ng, to) = CV.wait_timeout(g, Duration::from_millis(200)).unwrap();
      g = ng;
      if to.timed_out() && start.elapsed() > Duration::from_secs(8) {
        hang = true;
        let s = g.as_mut().unwrap();
        s.done = true;
        s.turn = None;
        s.deadlock = true;
        break;
      }
    }
    CV.notify_all();
  }
  let mut returns: Vec<Value> = vec![];
  if hang {
    // threads may be blocked for ever: do not join
    for _ in 0..n {
      returns.push(json!({"hang": true}));
    }
  } else {
    for h in handles {
      match h.join() {
        Ok(Ok(v)) => returns.push(json!({"ok": v.iter().map(|x| x.to_string()).collect::<Vec<_>>()})),
        Ok(Err(m)) => returns.push(json!({"panic": m})),
        Err(_) => returns.push(json!({"panic": "thread panicked outside the subject"})),
      }
    }
  }
  let g = SCHED.lock().unwrap();
  let s = g.as_ref().unwrap();
  let mut depths: Vec<(u8, u8)> = programs.iter().flatten().map(|c| (if c.kind == 0 { 0u8 } else { 1u8 }, c.depth)).collect();
  depths.sort();
  depths.dedup();
  let counts: Vec<Value> = depths.iter().map(|&(table, d)| json!({"table": table, "depth": d, "constructions": vh::new_count(table, d)})).collect();
  json!({
    "points": s.points, "events": s.events.iter().map(|e| json!([e.0, e.1, e.2, e.3])).collect::<Vec<_>>(),
    "returns": returns, "counts": counts, "races": s.races, "deadlock": s.deadlock && !hang, "hang": hang,
    "diverged": s.diverged, "preemptions": s.preemptions,
  })
}

// ---------------------------------------------------------------------------------------------
// Mutual-exclusion probe: the scheduler above MODELS the blocking of `Once` (a thread entering
// call_once while another is inside the closure is not scheduled).  The probe checks that
// assumption on the real code: thread 1 is held inside the constructor (P_NEW_BEGIN), then a
// free-running thread 2 calls the same get_or_create: it must NOT complete while thread 1 is
// held (and afterwards: one construction, same object).
// ---------------------------------------------------------------------------------------------

struct Probe {
  held: bool,
  release: bool,
}
static PROBE: Mutex<Probe> = Mutex::new(Probe { held: false, release: false });
static PROBE_CV: Condvar = Condvar::new();

/// Hook point at which thread 1 is held: P_NEW_BEGIN (inside the constructor, slot not yet
/// written), P_NEW_END (end of the constructor) or P_INIT_END (slot written, initialisation closure
/// not yet finished: a caller that does not go through the Once gets through here).
static HOLD_POINT: std::sync::atomic::AtomicU8 = std::sync::atomic::AtomicU8::new(vh::P_NEW_BEGIN);

fn probe_hook(_table: u8, point: u8, _depth: u8) {
  if TID.with(|t| t.get()) != Some(0) || point != HOLD_POINT.load(std::sync::atomic::Ordering::SeqCst) {
    return;
  }
  let mut g = PROBE.lock().unwrap();
  if g.release {
    return;
  }
  g.held = true;
  PROBE_CV.notify_all();
  while !g.release {
    g = PROBE_CV.wait(g).unwrap();
  }
}

pub fn run_probe(kind: u8, depth: u8, hold_point: u8) -> Value {
  HOLD_POINT.store(hold_point, std::sync::atomic::Ordering::SeqCst);
  {
    let mut g = PROBE.lock().unwrap();
    g.held = false;
    g.release = false;
  }
  vh::set_hook(probe_hook);
  let call = Call { kind, depth };
  let c1 = call.clone();
  let t1 = std::thread::spawn(move || {
    TID.with(|c| c.set(Some(0)));
    std::panic::catch_unwind(|| do_call(&c1)).map_err(|_| "panic".to_string())
  });
  // wait until thread 1 is held inside the constructor
  let start = Instant::now();
  let mut held = false;
  {
    let mut g = PROBE.lock().unwrap();
    while !g.held && start.elapsed() < Duration::from_secs(5) {
      let (ng, _) = PROBE_CV.wait_timeout(g, Duration::from_millis(50)).unwrap();
      g = ng;
    }
    held = g.held || held;
  }
  let table = if kind == 0 { 0u8 } else { 1u8 };
  if !held {
    // the constructor hook was never reached: nothing to probe (reported, not a verdict)
    {
      let mut g = PROBE.lock().unwrap();
      g.release = true;
      PROBE_CV.notify_all();
    }
    let r1 = t1.join();
    return json!({"probe": "constructor-hook-not-reached", "t1": format!("{:?}", r1.map(|x| x.map(|v| v.to_string())))});
  }
  let c2 = call.clone();
  let done2 = std::sync::Arc::new(std::sync::atomic::AtomicBool::new(false));
  let d2 = done2.clone();
  let t2 = std::thread::spawn(move || {
    let r = std::panic::catch_unwind(|| do_call(&c2)).map_err(|_| "panic".to_string());
    d2.store(true, std::sync::atomic::Ordering::SeqCst);
    r
  });
  // thread 2 must still be blocked after a generous delay
  let wait_start = Instant::now();
  while wait_start.elapsed() < Duration::from_millis(250) && !done2.load(std::sync::atomic::Ordering::SeqCst) {
    std::thread::sleep(Duration::from_millis(5));
  }
  let got_through = done2.load(std::sync::atomic::Ordering::SeqCst);
  let count_while_held = vh::new_count(table, depth);
  {
    let mut g = PROBE.lock().unwrap();
    g.release = true;
    PROBE_CV.notify_all();
  }
  let r1 = t1.join().unwrap_or(Err("panic".to_string()));
  let r2 = t2.join().unwrap_or(Err("panic".to_string()));
  json!({
    "probe": "done", "hold_point": hold_point, "second_thread_completed_while_first_was_constructing": got_through,
    "constructions_while_held": count_while_held, "constructions": vh::new_count(table, depth),
    "t1": r1.clone().map(|v| v.to_string()), "t2": r2.clone().map(|v| v.to_string()),
    "same_object": r1.is_ok() && r1 == r2,
  })
}


// ---------------------------------------------------------------------------------------------
// free-running first-use stress (SAMPLED, corroboration only): many real threads released
// together make the first calls of one process, for distinct depths and for shared depths; no
// hook is installed.  It reaches windows that contain no hook point (which the exhaustive
// exploration cannot split); it is not part of the exhaustive claim.
// ---------------------------------------------------------------------------------------------

/// After the races of a stress child: the results computed through the tables of EVERY depth must be
/// those of a single-threaded process (file written by the parent).  A value that is the same for
/// all threads but wrong -- an object built once from state corrupted by a race elsewhere -- is
/// only seen by this comparison.
pub fn compare_with_reference(path: &str, problems: &mut Vec<String>) {
  let text = match std::fs::read_to_string(path) {
    Ok(t) => t,
    Err(_) => return,
  };
  let reference: Value = match serde_json::from_str(&text) {
    Ok(v) => v,
    Err(_) => return,
  };
  for x in reference.as_array().map(|a| a.to_vec()).unwrap_or_default() {
    let d = x["depth"].as_u64().unwrap_or(0) as u8;
    match std::panic::catch_unwind(|| layer_results(d)) {
      Ok(got) => {
        if got != x {
          problems.push(format!("depth {}: results through the tables after the races {} differ from the single-threaded reference {}", d, got, x));
        }
      }
      Err(_) => problems.push(format!("depth {}: results through the tables panic after the races", d)),
    }
  }
}

/// A call that never returns (a waiter spinning on a flag that is never set) must end the child:
/// after `secs` seconds the watchdog prints a RESULT line saying so and exits.
pub fn stress_watchdog(secs: u64, what: &'static str) {
  std::thread::spawn(move || {
    std::thread::sleep(std::time::Duration::from_secs(secs));
    println!("RESULT {}", json!({"stress": "hung", "problems": [format!("{}: a call did not return within {} s", what, secs)]}));
    std::process::exit(3);
  });
}

/// Cross-table first use (SAMPLED): for every depth, one thread makes the first use of the Layer
/// and another one the first use of the cell-size constants of the same depth, released by a spin
/// barrier with a small stagger (-10..10 steps of 25 ns, a function of the seed and the depth);
/// then both tables are used again sequentially.  Exactly one construction per table and depth,
/// every call returns, later calls obtain the same object.
pub fn run_stress_mixed(round_seed: u64, reference: Option<&str>) -> Value {
  use std::sync::atomic::{AtomicUsize, Ordering};
  use std::sync::Arc;
  let mut problems: Vec<String> = vec![];
  for d in 0u8..30 {
    let step = ((round_seed * 7 + d as u64 * 3) % 21) as i64 - 10;
    let gate = Arc::new(AtomicUsize::new(0));
    let mk = |kind: u8, delay_ns: u64| {
      let g = gate.clone();
      std::thread::spawn(move || {
        g.fetch_add(1, Ordering::SeqCst);
        while g.load(Ordering::SeqCst) < 2 {
          std::hint::spin_loop();
        }
        let t0 = std::time::Instant::now();
        while (t0.elapsed().as_nanos() as u64) < delay_ns {
          std::hint::spin_loop();
        }
        let c = Call { kind, depth: d };
        std::panic::catch_unwind(|| do_call(&c)).map_err(|_| "panic".to_string())
      })
    };
    // kind 0 = Layer table, kind 1 = cell-size constants (direct)
    let ta = mk(0, if step > 0 { step as u64 * 25 } else { 0 });
    let tb = mk(1, if step < 0 { (-step) as u64 * 25 } else { 0 });
    let ra = ta.join().unwrap_or(Err("panic".to_string()));
    let rb = tb.join().unwrap_or(Err("panic".to_string()));
    for (kind, r) in [(0u8, &ra), (1u8, &rb)] {
      let c = Call { kind, depth: d };
      let later = std::panic::catch_unwind(|| do_call(&c)).map_err(|_| "panic".to_string());
      if !(r.is_ok() && *r == later) {
        problems.push(format!("mixed tables, depth {}: first use of table {} gave {:?}, later call {:?}", d, kind, r, later));
      }
    }
    // a third, late user of both tables (a second construction shows in the counters)
    let tc = std::thread::spawn(move || {
      std::panic::catch_unwind(|| (do_call(&Call { kind: 0, depth: d }), do_call(&Call { kind: 1, depth: d }), if d >= 1 { do_call(&Call { kind: 2, depth: d }) } else { 0 })).is_ok()
    });
    if !tc.join().unwrap_or(false) {
      problems.push(format!("mixed tables, depth {}: a later thread panics", d));
    }
    for (table, name) in [(vh::TABLE_LAYER, "Layer"), (vh::TABLE_C2V, "cell-size constants")] {
      let n = vh::new_count(table, d);
      if n != 1 {
        problems.push(format!("mixed tables, depth {}: {} constructed {} times", d, name, n));
      }
    }
  }
  if let Some(p) = reference {
    compare_with_reference(p, &mut problems);
  }
  json!({"stress": "done", "problems": problems})
}

pub fn run_stress(round_seed: u64, reference: Option<&str>) -> Value {
  use std::sync::Arc;
  let nthreads = 15usize;
  let mut problems: Vec<String> = vec![];
  // round 1: distinct depths; round 2: three threads per depth (other depths)
  for round in 0..2usize {
    // the first use of the cell-size constants is made through a different entry point in turn
    // (equatorial position, polar position, radius variant, direct), depending on the seed
    let c2v_first: u8 = [2u8, 3, 4, 1][(round_seed % 4) as usize];
    for kind in [0u8, c2v_first, 1] {
      let depths: Vec<u8> = (0..nthreads)
        .map(|t| {
          let base = if round == 0 { t } else { 15 + t / 3 };
          (((base as u64 + round_seed) % 15) as u8 + if round == 0 { 0 } else { 15 }).min(29).max(if kind >= 2 { 1 } else { 0 })
        })
        .collect();
      // spin gate (a futex barrier wakes its waiters microseconds apart: the first uses would
      // rarely overlap)
      let gate = Arc::new(std::sync::atomic::AtomicUsize::new(0));
      let handles: Vec<_> = depths
        .iter()
        .map(|&d| {
          let g = gate.clone();
          std::thread::spawn(move || {
            g.fetch_add(1, std::sync::atomic::Ordering::SeqCst);
            while g.load(std::sync::atomic::Ordering::SeqCst) < nthreads {
              std::hint::spin_loop();
            }
            let c = Call { kind, depth: d };
            std::panic::catch_unwind(|| (do_call(&c), do_call(&c))).map_err(|_| "panic".to_string())
          })
        })
        .collect();
      let results: Vec<Result<(usize, usize), String>> = handles.into_iter().map(|h| h.join().unwrap_or(Err("panic".to_string()))).collect();
      for (t, r) in results.iter().enumerate() {
        let d = depths[t];
        let c = Call { kind, depth: d };
        // the same call made afterwards, alone
        let later = std::panic::catch_unwind(|| do_call(&c)).map_err(|_| "panic".to_string());
        match (r, &later) {
          (Ok((a, b)), Ok(l)) if a == b && a == l => {}
          _ => problems.push(format!("kind {} depth {}: racing first calls {:?}, later call {:?}", kind, d, r, later)),
        }
        if kind == 0 {
          let ok = std::panic::catch_unwind(|| {
            let l = cdshealpix::nested::get_or_create(d);
            l.depth() == d && l.n_hash() == 12u64 << (2 * d as u32)
          })
          .unwrap_or(false);
          if !ok {
            problems.push(format!("layer of depth {} is not the layer of that depth (or panics)", d));
          }
        }
      }
    }
  }
  if let Some(p) = reference {
    compare_with_reference(p, &mut problems);
  }
  json!({"stress": "done", "problems": problems})
}
