//! C20: lazy per-depth tables under concurrent first use -- shape I (exhaustive interleavings).
//!
//! Parent process = stateless explorer (depth-first over scheduling choices, preemption bounded,
//! iterated 0, 1, 2, ...); every schedule is executed by a fresh child process (the lazily
//! initialised statics cannot be reset) on the real code under the cooperative scheduler of
//! `child.rs`.  A second engine, `c20model` (stateright), checks an abstract model generated from
//! the recorded hook-point sequence of the real code; every maximal trace of the model is replayed
//! here against the implementation (conformance).

#[path = "../../hpxmc/src/report.rs"]
#[allow(dead_code)]
mod report;
mod child;

use child::Call;
use report::*;
use serde_json::{json, Map, Value};
use std::collections::HashSet;
use std::process::Command;
use std::time::Instant;

#[derive(Clone)]
struct Scenario {
  name: &'static str,
  /// per thread: list of (kind, which depth of the pair: 0 or 1)
  threads: Vec<Vec<(u8, u8)>>,
  two_depths: bool,
  min_depth: u8,
  /// preemption bound (usize::MAX = unbounded)
  bound: usize,
}

fn scenarios(quick: bool) -> Vec<Scenario> {
  let unb = usize::MAX;
  let mut v = vec![
    Scenario { name: "2 threads, same depth, Layer table", threads: vec![vec![(0, 0)], vec![(0, 0)]], two_depths: false, min_depth: 0, bound: unb },
    Scenario { name: "2 threads, different depths, Layer table", threads: vec![vec![(0, 0)], vec![(0, 1)]], two_depths: true, min_depth: 0, bound: if quick { 2 } else { unb } },
    Scenario { name: "2 threads, same depth, C2V table (direct)", threads: vec![vec![(1, 0)], vec![(1, 0)]], two_depths: false, min_depth: 0, bound: unb },
    Scenario { name: "2 threads, same depth, C2V table through largest_center_to_vertex_distance", threads: vec![vec![(2, 0)], vec![(2, 0)]], two_depths: false, min_depth: 1, bound: unb },
    Scenario { name: "2 threads, same depth, two calls each (second use)", threads: vec![vec![(0, 0), (0, 0)], vec![(0, 0), (0, 0)]], two_depths: false, min_depth: 0, bound: if quick { 2 } else { unb } },
    Scenario { name: "3 threads, same depth, Layer table", threads: vec![vec![(0, 0)], vec![(0, 0)], vec![(0, 0)]], two_depths: false, min_depth: 0, bound: if quick { 1 } else { unb } },
  ];
  if !quick {
    v.push(Scenario { name: "3 threads: two on one depth, one on another", threads: vec![vec![(0, 0)], vec![(0, 0)], vec![(0, 1)]], two_depths: true, min_depth: 0, bound: 2 });
    v.push(Scenario { name: "Layer and C2V tables of one depth concurrently", threads: vec![vec![(0, 0)], vec![(1, 0)], vec![(0, 0)]], two_depths: false, min_depth: 0, bound: 2 });
  }
  v
}

/// The depth sets run by one child (every (table, depth) slot at most once per process).
fn depth_sets(s: &Scenario, quick: bool) -> Vec<Vec<(u8, u8)>> {
  let all: Vec<u8> = if quick { vec![0, 1, 13, 29] } else { (0..30).collect() };
  let ds: Vec<u8> = all.into_iter().filter(|&d| d >= s.min_depth).collect();
  if s.two_depths {
    let mut v = vec![];
    let mut k = 0;
    while k + 1 < ds.len() {
      v.push((ds[k], ds[k + 1]));
      k += 2;
    }
    vec![v]
  } else {
    vec![ds.iter().map(|&d| (d, d)).collect()]
  }
}

fn programs(s: &Scenario, pair: (u8, u8)) -> Vec<Vec<Call>> {
  s.threads.iter().map(|t| t.iter().map(|&(kind, which)| Call { kind, depth: if which == 0 { pair.0 } else { pair.1 } }).collect()).collect()
}

fn spec_json(s: &Scenario, pairs: &[(u8, u8)], prefix: &[usize]) -> Value {
  json!({
    "runs": pairs.iter().map(|&p| programs(s, p).iter().map(|t| t.iter().map(|c| json!([c.kind, c.depth])).collect::<Vec<_>>()).collect::<Vec<_>>()).collect::<Vec<_>>(),
    "prefix": prefix,
  })
}

fn run_child(spec: &Value) -> Result<Value, String> {
  let exe = std::env::current_exe().map_err(|e| e.to_string())?;
  let out = Command::new(exe).arg("child").arg(spec.to_string()).output().map_err(|e| e.to_string())?;
  let text = String::from_utf8_lossy(&out.stdout);
  for line in text.lines() {
    if let Some(rest) = line.strip_prefix("RESULT ") {
      return serde_json::from_str(rest).map_err(|e| e.to_string());
    }
  }
  Err(format!("child gave no result (status {:?}): {}", out.status.code(), String::from_utf8_lossy(&out.stderr).chars().take(400).collect::<String>()))
}

fn child_main(spec: &str) {
  let spec: Value = serde_json::from_str(spec).expect("bad spec");
  std::panic::set_hook(Box::new(|_| {}));
  let prefix: Vec<usize> = spec["prefix"].as_array().unwrap().iter().map(|x| x.as_u64().unwrap() as usize).collect();
  let mut results = vec![];
  for run in spec["runs"].as_array().unwrap() {
    let programs: Vec<Vec<Call>> = run.as_array().unwrap().iter().map(|t| t.as_array().unwrap().iter().map(|c| Call { kind: c[0].as_u64().unwrap() as u8, depth: c[1].as_u64().unwrap() as u8 }).collect()).collect();
    let order: Option<Vec<usize>> = spec.get("order").and_then(|o| o.as_array()).map(|a| a.iter().map(|x| x.as_u64().unwrap() as usize).collect());
    let mut r = child::run_schedule(&programs, &prefix, order);
    if r["hang"] == json!(true) {
      results.push(r);
      break; // blocked threads are still alive: stop here
    }
    let mut depths: Vec<u8> = programs.iter().flatten().map(|c| c.depth).collect();
    depths.sort();
    depths.dedup();
    r["depths_touched"] = json!(depths);
    results.push(r);
  }
  // results computed through the tables, after ALL the scheduled phases of this process (they
  // initialise other depths)
  let hung = results.iter().any(|r| r["hang"] == json!(true));
  if !hung {
    for r in results.iter_mut() {
      let depths: Vec<u8> = r["depths_touched"].as_array().unwrap().iter().map(|x| x.as_u64().unwrap() as u8).collect();
      let lr = std::panic::catch_unwind(|| depths.iter().map(|&d| child::layer_results(d)).collect::<Vec<_>>());
      r["layer_results"] = match lr {
        Ok(v) => json!(v),
        Err(_) => json!("panic"),
      };
    }
  }
  println!("RESULT {}", Value::Array(results));
}

fn reference_main(depths: &str) {
  std::panic::set_hook(Box::new(|_| {}));
  let ds: Vec<u8> = depths.split(',').filter(|s| !s.is_empty()).map(|s| s.parse().unwrap()).collect();
  let v: Vec<Value> = ds.iter().map(|&d| child::layer_results(d)).collect();
  println!("RESULT {}", Value::Array(v));
}

/// Record the hook-point sequence of a single thread doing a first and a second call (the model
/// of `c20model` is generated from it).
fn record_main(kind: &str) {
  std::panic::set_hook(Box::new(|_| {}));
  let kind: u8 = kind.parse().unwrap();
  let r1 = child::run_schedule(&[vec![Call { kind, depth: 5 }]], &[], None);
  let r2 = child::run_schedule(&[vec![Call { kind, depth: 5 }]], &[], None);
  println!("RESULT {}", json!({"first": r1["events"], "second": r2["events"]}));
}

struct Oracle {
  reference: std::collections::HashMap<u8, Value>,
}

fn violation_of(s: &Scenario, pair: (u8, u8), prefix: &[usize], r: &Value, oracle: &Oracle) -> Option<(String, String)> {
  if r["deadlock"] == json!(true) {
    return Some(("deadlock".into(), "no enabled thread although some have not finished".into()));
  }
  if r["hang"] == json!(true) {
    return Some(("hang".into(), "a thread never reached its next scheduling point (blocked outside the modelled primitives)".into()));
  }
  let rets = r["returns"].as_array().unwrap();
  for (t, ret) in rets.iter().enumerate() {
    if let Some(m) = ret.get("panic") {
      return Some(("panic".into(), format!("thread {} panicked: {}", t, m)));
    }
  }
  for c in r["counts"].as_array().unwrap() {
    let n = c["constructions"].as_u64().unwrap();
    if n != 1 {
      return Some(("constructed-more-than-once".into(), format!("table {} depth {} constructed {} times", c["table"], c["depth"], n)));
    }
  }
  // same object for every thread: compare the returned values per (kind, depth)
  let progs = programs(s, pair);
  let mut seen: std::collections::HashMap<(u8, u8), String> = std::collections::HashMap::new();
  for (t, ret) in rets.iter().enumerate() {
    let vals = ret["ok"].as_array().unwrap();
    for (k, c) in progs[t].iter().enumerate() {
      let v = vals[k].as_str().unwrap().to_string();
      if let Some(prev) = seen.get(&(c.kind, c.depth)) {
        if *prev != v {
          return Some(("different-objects".into(), format!("call kind {} depth {}: thread {} obtained {} but another call obtained {}", c.kind, c.depth, t, v, prev)));
        }
      } else {
        seen.insert((c.kind, c.depth), v);
      }
    }
  }
  if let Some(races) = r["races"].as_array() {
    if !races.is_empty() {
      return Some(("data-race".into(), format!("{} unordered access pair(s), e.g. {}", races.len(), races[0])));
    }
  }
  match r["layer_results"].as_array() {
    None => return Some(("results-panic".into(), "computing results through the tables panicked".into())),
    Some(lr) => {
      for x in lr {
        let d = x["depth"].as_u64().unwrap() as u8;
        if let Some(refv) = oracle.reference.get(&d) {
          if refv != x {
            return Some(("results-differ".into(), format!("depth {}: {} but the single-threaded reference is {}", d, x, refv)));
          }
        }
      }
    }
  }
  let _ = prefix;
  None
}

fn main() {
  let args: Vec<String> = std::env::args().collect();
  if args.len() >= 3 && args[1] == "child" {
    child_main(&args[2]);
    return;
  }
  if args.len() >= 3 && args[1] == "reference" {
    reference_main(&args[2]);
    return;
  }
  if args.len() >= 3 && args[1] == "record" {
    record_main(&args[2]);
    return;
  }
  if args.len() >= 3 && args[1] == "stress" {
    std::panic::set_hook(Box::new(|_| {}));
    child::stress_watchdog(15, "first-use stress");
    let r = child::run_stress(args[2].parse().unwrap_or(0), args.get(3).map(|s| s.as_str()));
    println!("RESULT {}", r);
    std::process::exit(0);
  }
  if args.len() >= 3 && args[1] == "stress-mixed" {
    std::panic::set_hook(Box::new(|_| {}));
    child::stress_watchdog(15, "cross-table first-use stress");
    let r = child::run_stress_mixed(args[2].parse().unwrap_or(0), args.get(3).map(|s| s.as_str()));
    println!("RESULT {}", r);
    std::process::exit(0);
  }
  if args.len() >= 4 && args[1] == "probe" {
    std::panic::set_hook(Box::new(|_| {}));
    let hold: u8 = args.get(4).and_then(|a| a.parse().ok()).unwrap_or(7);
    let r = child::run_probe(args[2].parse().unwrap(), args[3].parse().unwrap(), hold);
    println!("RESULT {}", r);
    return;
  }
  // explorer
  let mut tier = std::env::var("VERIF_TIER").unwrap_or_else(|_| "quick".to_string());
  let mut config = "release".to_string();
  let mut verif_dir = "/verif".to_string();
  let mut replay: Option<String> = None;
  let mut i = 2;
  while i < args.len() {
    match args[i].as_str() {
      "--tier" => { tier = args[i + 1].clone(); i += 1; }
      "--config" => { config = args[i + 1].clone(); i += 1; }
      "--verif-dir" => { verif_dir = args[i + 1].clone(); i += 1; }
      "--replay" => { replay = Some(args[i + 1].clone()); i += 1; }
      _ => {}
    }
    i += 1;
  }
  let seed: i64 = std::env::var("VERIF_SEED").ok().and_then(|s| s.parse().ok()).unwrap_or(0);
  let budget_s: f64 = std::env::var("HPXMC_BUDGET_S").ok().and_then(|s| s.parse().ok()).unwrap_or(if tier == "quick" { 50.0 } else { 1500.0 });
  let ctx = Ctx { id: "C20".into(), tier: tier.clone(), seed, verif_dir: verif_dir.clone(), start: Instant::now(), config, findings: Findings::load(&verif_dir), budget_s };
  let quick = ctx.quick();

  // single-threaded reference results (fresh process)
  let all_depths: Vec<String> = (0..30).map(|d| d.to_string()).collect();
  let exe = std::env::current_exe().unwrap();
  let out = Command::new(&exe).arg("reference").arg(all_depths.join(",")).output().expect("reference child");
  let mut oracle = Oracle { reference: std::collections::HashMap::new() };
  for line in String::from_utf8_lossy(&out.stdout).lines() {
    if let Some(rest) = line.strip_prefix("RESULT ") {
      let v: Value = serde_json::from_str(rest).expect("reference json");
      for x in v.as_array().unwrap() {
        oracle.reference.insert(x["depth"].as_u64().unwrap() as u8, x.clone());
      }
    }
  }
  if oracle.reference.len() != 30 {
    eprintln!("[c20sched] MACHINERY ERROR: no single-threaded reference");
    std::process::exit(2);
  }
  // the reference, for the free-running stress children
  let ref_path = format!("{}/engine/out/C20.reference.json", verif_dir);
  {
    let mut v: Vec<Value> = oracle.reference.values().cloned().collect();
    v.sort_by_key(|x| x["depth"].as_u64().unwrap_or(0));
    let _ = std::fs::create_dir_all(format!("{}/engine/out", verif_dir));
    if std::fs::write(&ref_path, Value::Array(v).to_string()).is_err() {
      eprintln!("[c20sched] MACHINERY ERROR: cannot write {}", ref_path);
      std::process::exit(2);
    }
  }

  if let Some(path) = replay {
    let doc: Value = serde_json::from_str(&std::fs::read_to_string(&path).expect("read replay")).expect("parse replay");
    let case = &doc["case"];
    let scn_name = case["scenario"].as_str().unwrap();
    if scn_name == "first-use stress (sampled)" {
      let exe = std::env::current_exe().unwrap();
      let mut bad = false;
      for k in 0..80u64 {
        let out = Command::new(&exe).arg(if k % 2 == 0 { "stress" } else { "stress-mixed" }).arg((k / 2).to_string()).arg(&ref_path).output().expect("stress child");
        let r: Value = String::from_utf8_lossy(&out.stdout).lines().find_map(|l| l.strip_prefix("RESULT ").map(|r| serde_json::from_str::<Value>(r).ok())).flatten().unwrap_or(json!({}));
        if r["stress"] != json!("done") || r["problems"].as_array().map(|a| !a.is_empty()).unwrap_or(true) {
          bad = true;
          eprintln!("REPLAY C20 stress: {}", r);
          break;
        }
      }
      std::process::exit(if bad { 1 } else { 0 });
    }
    if scn_name == "mutual-exclusion probe" {
      let exe = std::env::current_exe().unwrap();
      let out = Command::new(exe).arg("probe").arg(case["call_kind"].to_string()).arg(case["depths"][0].to_string()).arg(case.get("hold_point").and_then(|h| h.as_u64()).unwrap_or(7).to_string()).output().expect("probe child");
      let r: Value = String::from_utf8_lossy(&out.stdout).lines().find_map(|l| l.strip_prefix("RESULT ").map(|r| serde_json::from_str::<Value>(r).ok())).flatten().unwrap_or(json!({}));
      let bad = r["probe"] == json!("done") && (r["second_thread_completed_while_first_was_constructing"] == json!(true) || r["constructions"] != json!(1) || r["same_object"] != json!(true));
      eprintln!("REPLAY C20 probe: {}", r);
      std::process::exit(if bad { 1 } else { 0 });
    }
    let scns = scenarios(false);
    let s = scns.iter().find(|s| s.name == scn_name).expect("unknown scenario");
    let pair = (case["depths"][0].as_u64().unwrap() as u8, case["depths"][1].as_u64().unwrap() as u8);
    let prefix: Vec<usize> = case["choices"].as_array().unwrap().iter().map(|x| x.as_u64().unwrap() as usize).collect();
    let mut verdicts = vec![];
    for _ in 0..2 {
      match run_child(&spec_json(s, &[pair], &prefix)) {
        Ok(v) => verdicts.push((v[0]["events"].clone(), violation_of(s, pair, &prefix, &v[0], &oracle))),
        Err(e) => { eprintln!("REPLAY C20: machinery error: {}", e); std::process::exit(2); }
      }
    }
    if verdicts[0].0 != verdicts[1].0 {
      eprintln!("REPLAY C20: NON-DETERMINISTIC replay (machinery error)");
      std::process::exit(2);
    }
    match &verdicts[0].1 {
      Some((k, m)) => { eprintln!("REPLAY C20: still violates ({}): {}", k, m); std::process::exit(1); }
      None => { eprintln!("REPLAY C20: schedule no longer violates"); std::process::exit(0); }
    }
  }

  let mut total = Part::new();
  let mut scn_info = vec![];
  let mut event_logs: HashSet<u64> = HashSet::new();
  for s in scenarios(quick) {
    for pairs in depth_sets(&s, quick) {
      if pairs.is_empty() {
        continue;
      }
      // iterate the preemption bound: 0, 1, ..., bound (the first counterexample has the fewest preemptions)
      let mut explored: HashSet<Vec<usize>> = HashSet::new();
      let mut n_sched = 0u64;
      let mut n_points = 0u64;
      let mut capped = false;
      let mut frontier: Vec<Vec<usize>> = vec![vec![]];
      while !frontier.is_empty() {
        if ctx.over_budget() {
          capped = true;
          total.caps.push(format!("wall budget {}s reached in scenario '{}' after {} schedules", ctx.budget_s, s.name, n_sched));
          break;
        }
        frontier.sort();
        frontier.dedup();
        let batch: Vec<Vec<usize>> = frontier.drain(..).filter(|p| explored.insert(p.clone())).collect();
        let results = par_map(&batch, |prefix| run_child(&spec_json(&s, &pairs, prefix)));
        for (prefix, res) in batch.iter().zip(results.into_iter()) {
          let arr = match res {
            Ok(v) => v,
            Err(e) => { eprintln!("[c20sched] MACHINERY ERROR: {}", e); std::process::exit(2); }
          };
          let runs = arr.as_array().unwrap();
          n_sched += 1;
          for (k, r) in runs.iter().enumerate() {
            if !r["diverged"].is_null() {
              eprintln!("[c20sched] MACHINERY ERROR: divergence while replaying a prefix: {} (scenario {}, depths {:?})", r["diverged"], s.name, pairs[k]);
              std::process::exit(2);
            }
            total.stratum(s.name, 1, r["points"].as_array().map(|p| p.len() as u64).unwrap_or(0));
            total.validated += 1;
            let ev: Vec<u64> = r["events"].as_array().unwrap().iter().map(|e| e[0].as_u64().unwrap() << 16 | e[1].as_u64().unwrap() << 8 | e[2].as_u64().unwrap()).collect();
            let hsh = hash64(&ev);
            event_logs.insert(hsh ^ hash64(&[s.name.len() as u64]));
            total.outcome(hsh);
            if let Some((kind, msg)) = violation_of(&s, pairs[k], prefix, r, &oracle) {
              let full: Vec<usize> = r["points"].as_array().unwrap().iter().map(|p| p["chosen"].as_u64().unwrap() as usize).collect();
              total.viol(Viol {
                api: "get_or_create".into(),
                kind,
                case: json!({"scenario": s.name, "depths": [pairs[k].0, pairs[k].1], "choices": full, "preemptions": r["preemptions"], "events": r["events"]}),
                expected: "one construction per depth, the same fully initialised object for every thread, results equal to the single-threaded ones, no unordered access to a slot, no deadlock".into(),
                actual: msg,
              });
            }
          }
          // expand alternatives (from the first run: the schedule tree is the same for every depth)
          let pts = runs[0]["points"].as_array().unwrap();
          if runs.iter().any(|r| r["points"].as_array().unwrap().len() != pts.len()) && !runs.iter().any(|r| r["hang"] == json!(true) || r["deadlock"] == json!(true)) {
            eprintln!("[c20sched] MACHINERY ERROR: schedule trees differ between depths in scenario {}", s.name);
            std::process::exit(2);
          }
          n_points += pts.len() as u64;
          let choices: Vec<usize> = pts.iter().map(|p| p["chosen"].as_u64().unwrap() as usize).collect();
          let mut cost = 0usize;
          for i in 0..pts.len() {
            let en = pts[i]["enabled"].as_array().unwrap().len();
            let re = pts[i]["running_enabled"].as_bool().unwrap();
            if i >= prefix.len() {
              for alt in 1..en {
                let c = cost + if re { 1 } else { 0 };
                if c <= s.bound {
                  let mut np = choices[..i].to_vec();
                  np.push(alt);
                  frontier.push(np);
                }
              }
            }
            if re && choices[i] != 0 {
              cost += 1;
            }
          }
          if n_sched % 97 == (ctx.seed.rem_euclid(97)) as u64 {
            total.sample(json!({"scenario": s.name, "depths": [pairs[0].0, pairs[0].1], "choices": choices, "events": runs[0]["events"]}));
          }
        }
      }
      scn_info.push(json!({"scenario": s.name, "threads": s.threads.len(), "preemption_bound": if s.bound == usize::MAX { json!("unbounded") } else { json!(s.bound) },
        "depths_per_schedule": pairs.iter().map(|p| json!([p.0, p.1])).collect::<Vec<_>>(), "schedules": n_sched, "scheduling_points": n_points, "completed": !capped}));
    }
  }
  // mutual-exclusion probe: validates the blocking model of Once used by the scheduler
  let mut probes = vec![];
  {
    let probe_depths: Vec<u8> = if quick { vec![2, 17] } else { vec![0, 5, 11, 17, 23, 29] };
    // hold points: 7 = P_NEW_BEGIN, 8 = P_NEW_END, 4 = P_INIT_END (slot written, Once not completed)
    let items: Vec<(u8, u8, u8)> = [0u8, 1, 2].iter().flat_map(|&k| probe_depths.iter().flat_map(move |&d| [7u8, 8, 4].into_iter().map(move |hp| (k, d.max(if k == 2 { 1 } else { 0 }), hp)))).collect();
    let results = par_map(&items, |&(k, d, hp)| {
      let exe = std::env::current_exe().unwrap();
      let out = Command::new(exe).arg("probe").arg(k.to_string()).arg(d.to_string()).arg(hp.to_string()).output();
      match out {
        Ok(o) => String::from_utf8_lossy(&o.stdout).lines().find_map(|l| l.strip_prefix("RESULT ").map(|r| serde_json::from_str::<Value>(r).ok())).flatten(),
        Err(_) => None,
      }
    });
    for (&(k, d, hp), r) in items.iter().zip(results.into_iter()) {
      let r = match r {
        Some(r) => r,
        None => { eprintln!("[c20sched] MACHINERY ERROR: probe child gave no result"); std::process::exit(2); }
      };
      total.stratum("mutual-exclusion-probe", 1, 2);
      total.validated += 1;
      let bad = r["probe"] == json!("done") && (r["second_thread_completed_while_first_was_constructing"] == json!(true) || r["constructions"] != json!(1) || r["same_object"] != json!(true));
      if bad {
        total.viol(Viol {
          api: "get_or_create".into(),
          kind: "no-mutual-exclusion".into(),
          case: json!({"scenario": "mutual-exclusion probe", "call_kind": k, "depths": [d, d], "hold_point": hp, "choices": []}),
          expected: "while a thread is inside the constructor / the initialisation closure (held at hook point 7 = P_NEW_BEGIN, 8 = P_NEW_END or 4 = P_INIT_END), a second thread calling get_or_create for the same depth waits; then one construction and the same object for both".into(),
          actual: r.to_string(),
        });
      }
      probes.push(json!({"call_kind": k, "depth": d, "hold_point": hp, "result": r}));
    }
  }
  // free-running first-use stress: SAMPLED corroboration (labelled as such), in fresh processes
  let stress_info = {
    let nproc: u64 = if quick { 160 } else { 640 }; // even: same-table rounds, odd: cross-table rounds
    let items: Vec<u64> = (0..nproc).collect();
    // one child at a time: each child spins up to 15 threads on a gate, and the first uses only
    // overlap if every thread has a core of its own
    let results: Vec<Option<Value>> = items.iter().map(|&k| {
      let exe = std::env::current_exe().unwrap();
      let mode = if k % 2 == 0 { "stress" } else { "stress-mixed" };
      match Command::new(exe).arg(mode).arg((k / 2).to_string()).arg(&ref_path).output() {
        Ok(o) => String::from_utf8_lossy(&o.stdout).lines().find_map(|l| l.strip_prefix("RESULT ").map(|r| serde_json::from_str::<Value>(r).ok())).flatten(),
        Err(_) => None,
      }
    }).collect();
    let mut first_problem: Option<Value> = None;
    for r in results.into_iter() {
      match r {
        Some(r) if r["stress"] == json!("done") && r["problems"].as_array().map(|a| a.is_empty()).unwrap_or(false) => {}
        other => {
          if first_problem.is_none() {
            first_problem = Some(other.unwrap_or(json!({"stress": "child crashed"})));
          }
        }
      }
    }
    if let Some(p) = &first_problem {
      total.viol(Viol {
        api: "get_or_create".into(),
        kind: "first-use-race(sampled)".into(),
        case: json!({"scenario": "first-use stress (sampled)", "call_kind": 0, "depths": [0, 0], "choices": []}),
        expected: "15 threads released together making the first calls of a process (distinct depths, then three per depth), and pairs of threads making the first use of the Layer and of the cell-size constants of one depth with a stagger of -250..250 ns: every call returns, all obtain the object / value a later call obtains, one construction per table and depth; no panic".into(),
        actual: p.to_string(),
      });
    }
    json!({"processes": nproc, "threads": "15 (same-table rounds) / 2 per depth x 30 depths (cross-table rounds)", "exhaustive": false, "note": "free-running threads (sampling): corroboration only, not counted in the exhaustive bound", "problem": first_problem})
  };
  let mut extra = Map::new();
  extra.insert("first_use_stress_sampled".into(), stress_info);
  extra.insert("scenarios".into(), json!(scn_info));
  extra.insert("mutual_exclusion_probes".into(), json!(probes));
  extra.insert("distinct_event_logs".into(), json!(event_logs.len()));
  // abstract model + conformance
  let model = c20_model(&ctx, &mut total, &oracle);
  extra.insert("abstract_model".into(), model);
  let code = finish(
    &ctx,
    total,
    json!({"engine_a": "cooperative scheduler on the real code at the cfg(cdshealpix_verif) hook points, one fresh process per schedule (x the listed depths), depth-first over all scheduling choices within the preemption bound",
      "engine_b": "stateright model generated from the recorded hook-point sequence of the real code; every maximal trace replayed on the implementation"}),
    "all schedules of the listed scenarios within the listed preemption bounds, for every listed depth",
    vec![
      "scheduling points = the hook points (reads/writes of the slot, call_once entry/exit, constructor entry/exit); sequential consistency between points".into(),
      "Once modelled as: a thread entering call_once while another is inside the closure is blocked until the closure returns".into(),
      "weak-memory reorderings beyond the happens-before edges of Once, and more than 3 threads, are outside the bound".into(),
    ],
    extra,
  );
  std::process::exit(code);
}

fn par_map<T: Sync, R: Send>(items: &[T], f: impl Fn(&T) -> R + Sync) -> Vec<R> {
  use std::sync::atomic::{AtomicUsize, Ordering};
  use std::sync::Mutex;
  let next = AtomicUsize::new(0);
  let out: Mutex<Vec<Option<R>>> = Mutex::new((0..items.len()).map(|_| None).collect());
  let nthreads = std::thread::available_parallelism().map(|n| n.get()).unwrap_or(4).min(16).min(items.len().max(1));
  std::thread::scope(|s| {
    for _ in 0..nthreads {
      s.spawn(|| loop {
        let k = next.fetch_add(1, Ordering::SeqCst);
        if k >= items.len() {
          break;
        }
        let r = f(&items[k]);
        out.lock().unwrap()[k] = Some(r);
      });
    }
  });
  out.into_inner().unwrap().into_iter().map(|x| x.unwrap()).collect()
}

/// Engine (b): run the stateright model generated from the recorded point sequences, then replay
/// every maximal model trace on the implementation.
fn c20_model(ctx: &Ctx, total: &mut Part, oracle: &Oracle) -> Value {
  let exe = std::env::current_exe().unwrap();
  let dir = exe.parent().unwrap();
  let model_exe = dir.join("c20model");
  if !model_exe.exists() {
    return json!({"status": "c20model binary not built"});
  }
  let mut infos = vec![];
  for kind in [0u8, 1] {
    // record the single-threaded point sequences (fresh process)
    let out = Command::new(&exe).arg("record").arg(kind.to_string()).output().expect("record child");
    let mut rec: Option<Value> = None;
    for line in String::from_utf8_lossy(&out.stdout).lines() {
      if let Some(rest) = line.strip_prefix("RESULT ") {
        rec = serde_json::from_str(rest).ok();
      }
    }
    let rec = match rec {
      Some(r) => r,
      None => { eprintln!("[c20sched] MACHINERY ERROR: cannot record the point sequence"); std::process::exit(2); }
    };
    for (nthreads, ncalls) in [(2usize, 1usize), (2, 2), (3, 1)] {
      if ctx.quick() && nthreads == 3 && kind == 1 {
        continue;
      }
      let spec = json!({"first": rec["first"], "second": rec["second"], "threads": nthreads, "calls": ncalls, "max_traces": if ncalls == 1 && nthreads == 2 { 100000 } else if ctx.quick() { 300 } else { 400000 }});
      let out = Command::new(&model_exe).arg(spec.to_string()).output().expect("c20model");
      let mut res: Option<Value> = None;
      for line in String::from_utf8_lossy(&out.stdout).lines() {
        if let Some(rest) = line.strip_prefix("RESULT ") {
          res = serde_json::from_str(rest).ok();
        }
      }
      let res = match res {
        Some(r) => r,
        None => { eprintln!("[c20sched] MACHINERY ERROR: c20model gave no result: {}", String::from_utf8_lossy(&out.stderr)); std::process::exit(2); }
      };
      if res["status"] != json!("ok") {
        // the recorded control flow matches no skeleton the model knows: engine (a) decides alone
        infos.push(json!({"table": kind, "threads": nthreads, "calls_per_thread": ncalls, "status": res["status"], "explanation": res["explanation"]}));
        continue;
      }
      total.stratum("abstract-model-states", res["states"].as_u64().unwrap_or(0), res["transitions"].as_u64().unwrap_or(0));
      // model verdict
      if let Some(bad) = res["violated_properties"].as_array() {
        for b in bad {
          total.viol(Viol {
            api: if kind == 0 { "nested::get_or_create (model)".into() } else { "C2V get_or_create (model)".into() },
            kind: format!("model:{}", b["property"].as_str().unwrap_or("?")),
            case: json!({"model": {"table": kind, "threads": nthreads}, "trace": b["trace"], "scenario": Value::Null}),
            expected: "the property holds in every reachable state of the model generated from the code's own point sequence".into(),
            actual: format!("counterexample of {} steps: {}", b["trace"].as_array().map(|t| t.len()).unwrap_or(0), b["explanation"]),
          });
        }
      }
      // conformance: replay every projected maximal trace on the implementation
      let traces = res["schedules"].as_array().cloned().unwrap_or_default();
      let scn = Scenario { name: "model-conformance", threads: (0..nthreads).map(|_| (0..ncalls).map(|_| (kind, 0u8)).collect()).collect(), two_depths: false, min_depth: 0, bound: usize::MAX };
      let items: Vec<(usize, Value)> = traces.into_iter().enumerate().collect();
      let results = par_map(&items, |(k, tr)| {
        // a model schedule = sequence of thread ids in the order of their hook events
        let order: Vec<usize> = tr["order"].as_array().unwrap().iter().map(|x| x.as_u64().unwrap() as usize).collect();
        let depth = (*k % 30) as u8;
        (depth, order.clone(), replay_order(&scn, depth, &order))
      });
      let mut validated = 0u64;
      for ((_, tr), (depth, order, r)) in items.iter().zip(results.into_iter()) {
        match r {
          Ok(run) => {
            let got: Vec<(u64, u64)> = run["events"].as_array().unwrap().iter().map(|e| (e[0].as_u64().unwrap(), e[2].as_u64().unwrap())).collect();
            let exp: Vec<(u64, u64)> = tr["events"].as_array().unwrap().iter().map(|e| (e[0].as_u64().unwrap(), e[1].as_u64().unwrap())).collect();
            if got != exp {
              eprintln!("[c20sched] MACHINERY ERROR: the implementation diverges from the model trace {:?}: model {:?} impl {:?}", order, exp, got);
              std::process::exit(2);
            }
            let cnt = run["counts"][0]["constructions"].as_u64().unwrap_or(0);
            if cnt != tr["constructions"].as_u64().unwrap_or(1) {
              eprintln!("[c20sched] MACHINERY ERROR: construction count differs from the model ({} vs {})", cnt, tr["constructions"]);
              std::process::exit(2);
            }
            validated += 1;
            if let Some((kind_v, msg)) = violation_of(&scn, (depth, depth), &[], &run, oracle) {
              // the same violation is reported by engine (a); count it once here as a model-trace replay
              if kind_v != "data-race" {
                total.viol(Viol { api: "get_or_create".into(), kind: kind_v, case: json!({"scenario": "model-conformance", "table": kind, "threads": nthreads, "order": order, "depths": [depth, depth]}), expected: "as the model".into(), actual: msg });
              }
            }
          }
          Err(e) => { eprintln!("[c20sched] MACHINERY ERROR: {}", e); std::process::exit(2); }
        }
      }
      total.validated += validated;
      infos.push(json!({"table": kind, "threads": nthreads, "calls_per_thread": ncalls, "model_states": res["states"], "model_transitions": res["transitions"], "model_max_depth": res["max_depth"],
        "properties": res["properties"], "maximal_paths": res["maximal_paths"], "distinct_projected_traces": res["schedules"].as_array().map(|a| a.len()), "traces_replayed_on_impl": validated, "traces_capped": res["traces_capped"],
        "program_first_call": rec["first"], "program_second_call": rec["second"]}));
    }
  }
  json!({"status": "ok", "runs": infos})
}

/// Drive the implementation along a model trace: `order[i]` = the thread to run at decision i.
fn replay_order(s: &Scenario, depth: u8, order: &[usize]) -> Result<Value, String> {
  let mut spec = spec_json(s, &[(depth, depth)], &[]);
  spec["order"] = json!(order);
  let v = run_child(&spec)?;
  let run = v[0].clone();
  if !run["diverged"].is_null() {
    return Err(format!("the implementation cannot follow the model trace {:?}: {}", order, run["diverged"]));
  }
  Ok(run)
}
