//! C14: internal / external edges of a cell at a deeper depth -- shape S.

use crate::alpha::*;
use crate::refm::*;
use crate::report::*;
use cdshealpix::compass_point::{Cardinal, Ordinal};
use cdshealpix::nested;
use cdshealpix::nested::Layer;
use serde_json::{json, Map, Value};

fn case_json(depth: u8, h: u64, delta: u8) -> Value {
  json!({"depth": depth, "hash": h.to_string(), "delta_depth": delta})
}

fn descendant(depth: u8, h: u64, delta: u8, a: u32, b: u32) -> u64 {
  let (d0h, i, j) = decode(depth, h);
  encode(depth + delta, d0h, (i << delta) + a, (j << delta) + b)
}

/// Reference closed walk: S -> (SE side) -> E -> (NE side) -> N -> (NW side) -> W -> (SW side).
fn ref_internal_walk(depth: u8, h: u64, delta: u8) -> Vec<u64> {
  let m = (1u32 << delta) - 1;
  let mut v = vec![];
  if m == 0 {
    return vec![descendant(depth, h, delta, 0, 0)];
  }
  for a in 0..m {
    v.push(descendant(depth, h, delta, a, 0));
  }
  for b in 0..m {
    v.push(descendant(depth, h, delta, m, b));
  }
  for a in (1..=m).rev() {
    v.push(descendant(depth, h, delta, a, m));
  }
  for b in (1..=m).rev() {
    v.push(descendant(depth, h, delta, 0, b));
  }
  v
}

fn is_descendant(h: u64, delta: u8, c: u64) -> bool {
  c >> (2 * delta as u32) == h
}

/// Reference external edge: cells of depth+delta outside h and adjacent to it.
fn ref_external(depth: u8, h: u64, delta: u8, walk: &[u64]) -> Vec<u64> {
  let dd = depth + delta;
  let mut v: Vec<u64> = vec![];
  for &c in walk {
    for (_, nb) in ref_neighbours(dd, c) {
      if !is_descendant(h, delta, nb) {
        v.push(nb);
      }
    }
  }
  v.sort();
  v.dedup();
  v
}

/// Canonical lattice vertices (at depth+delta) of the 4 sides of h: [SE, SW, NE, NW] in the
/// subject's Ordinal order, and of its 4 corners [S, E, N, W].
fn sides_and_corners(depth: u8, h: u64, delta: u8) -> ([Vec<(i64, i64)>; 4], [(i64, i64); 4]) {
  let m = 1i64 << delta;
  let n = nside(depth + delta);
  let vs = vertices_lattice(depth, h); // S, E, N, W at depth
  let sc: Vec<(i64, i64)> = vs.iter().map(|&(x, y)| (x * m, y * m)).collect();
  let canon = |p: (i64, i64)| canon_vertex(n, p.0, p.1).expect("oracle: vertex out of domain");
  let seg = |from: (i64, i64), step: (i64, i64)| -> Vec<(i64, i64)> { (0..=m).map(|k| canon((from.0 + k * step.0, from.1 + k * step.1))).collect() };
  let se = seg(sc[0], (1, 1)); // S -> E
  let sw = seg(sc[0], (-1, 1)); // S -> W
  let ne = seg(sc[1], (-1, 1)); // E -> N
  let nw = seg(sc[3], (1, 1)); // W -> N
  ([se, sw, ne, nw], [canon(sc[0]), canon(sc[1]), canon(sc[2]), canon(sc[3])])
}

fn ordinal(k: usize) -> Ordinal {
  match k {
    0 => Ordinal::SE,
    1 => Ordinal::SW,
    2 => Ordinal::NE,
    _ => Ordinal::NW,
  }
}
const ORD: [&str; 4] = ["SE", "SW", "NE", "NW"];
const CARD: [&str; 4] = ["S", "E", "N", "W"];

macro_rules! viol {
  ($api:expr, $kind:expr, $case:expr, $exp:expr, $act:expr) => {
    return Some(Viol { api: $api.into(), kind: $kind.into(), case: $case, expected: $exp, actual: $act })
  };
}

fn show(v: &[u64]) -> String {
  let s: Vec<String> = v.iter().take(24).map(|x| x.to_string()).collect();
  format!("[{}{}] (len {})", s.join(","), if v.len() > 24 { ",..." } else { "" }, v.len())
}

pub fn check(depth: u8, h: u64, delta: u8, use_free_fns: bool, part: &mut Part) -> Option<Viol> {
  let case = case_json(depth, h, delta);
  journal("edges", || case.clone());
  let dd = depth + delta;
  let walk = ref_internal_walk(depth, h, delta);
  let expected_len = (4usize << delta) - 4;
  if delta >= 1 && walk.len() != expected_len {
    panic!("oracle: walk length");
  }
  // --- internal edge
  let ie = match guarded(move || if use_free_fns { nested::internal_edge(depth, h, delta) } else { Layer::internal_edge(h, delta) }) {
    Ok(v) => v.into_vec(),
    Err(m) => viol!("nested::internal_edge", "panic-in-domain", case, show(&walk), format!("panic: {}", m)),
  };
  part.validated += 1;
  part.outcome(hash64(&ie));
  if ie != walk {
    viol!("internal_edge", "wrong-walk", case, format!("closed walk from the south corner through the east corner: {}", show(&walk)), show(&ie));
  }
  let mut sorted = walk.clone();
  sorted.sort();
  let ies = match guarded(move || if use_free_fns { nested::internal_edge_sorted(depth, h, delta) } else { Layer::internal_edge_sorted(h, delta) }) {
    Ok(v) => v.into_vec(),
    Err(m) => viol!("nested::internal_edge_sorted", "panic-in-domain", case, show(&sorted), format!("panic: {}", m)),
  };
  if ies != sorted {
    viol!("internal_edge_sorted", "wrong-set", case, show(&sorted), show(&ies));
  }
  // per-corner / per-side helpers
  let m = (1u32 << delta) - 1;
  let corners = [descendant(depth, h, delta, 0, 0), descendant(depth, h, delta, m, 0), descendant(depth, h, delta, m, m), descendant(depth, h, delta, 0, m)];
  let got_c = guarded(move || {
    [
      (nested::internal_corner_south(h, delta), nested::internal_corner(h, delta, &Cardinal::S)),
      (nested::internal_corner_east(h, delta), nested::internal_corner(h, delta, &Cardinal::E)),
      (nested::internal_corner_north(h, delta), nested::internal_corner(h, delta, &Cardinal::N)),
      (nested::internal_corner_west(h, delta), nested::internal_corner(h, delta, &Cardinal::W)),
    ]
  });
  match got_c {
    Ok(g) => {
      for k in 0..4 {
        if g[k].0 != corners[k] || g[k].1 != corners[k] {
          viol!("internal_corner", "wrong-corner", case, format!("{} corner = {}", CARD[k], corners[k]), format!("{:?}", g[k]));
        }
      }
    }
    Err(m) => viol!("internal_corner", "panic-in-domain", case, "4 corners".into(), m),
  }
  let side_cells = |k: usize| -> Vec<u64> {
    let mut v: Vec<u64> = (0..=m)
      .map(|t| match k {
        0 => descendant(depth, h, delta, t, 0),
        1 => descendant(depth, h, delta, 0, t),
        2 => descendant(depth, h, delta, m, t),
        _ => descendant(depth, h, delta, t, m),
      })
      .collect();
    v.sort();
    v
  };
  for k in 0..4usize {
    let exp = side_cells(k);
    let got = guarded(move || {
      let a = nested::internal_edge_part(h, delta, &ordinal(k)).into_vec();
      let b = match k {
        0 => nested::internal_edge_southeast(h, delta),
        1 => nested::internal_edge_southwest(h, delta),
        2 => nested::internal_edge_northeast(h, delta),
        _ => nested::internal_edge_northwest(h, delta),
      }
      .into_vec();
      let mut c: Vec<u64> = vec![7];
      nested::append_internal_edge_part(h, delta, &ordinal(k), &mut c);
      (a, b, c)
    });
    match got {
      Ok((mut a, mut b, c)) => {
        a.sort();
        b.sort();
        let mut c2 = c[1..].to_vec();
        c2.sort();
        if a != exp || b != exp || c[0] != 7 || c2 != exp {
          viol!("internal_edge_part", "wrong-side", case, format!("{} side = {}", ORD[k], show(&exp)), format!("part {} / named {} / appended {}", show(&a), show(&b), show(&c)));
        }
      }
      Err(m) => viol!("internal_edge_part", "panic-in-domain", case, "a side".into(), m),
    }
  }
  // --- external edge
  let ext = ref_external(depth, h, delta, &walk);
  let layer = nested::get_or_create(depth);
  let ee = match guarded(move || if use_free_fns { nested::external_edge(depth, h, delta) } else { layer.external_edge(h, delta) }) {
    Ok(v) => v.into_vec(),
    Err(m) => viol!("external_edge", "panic-in-domain", case, show(&ext), format!("panic: {}", m)),
  };
  part.validated += 1;
  let mut ee_sorted = ee.clone();
  ee_sorted.sort();
  if ee_sorted != ext {
    let dup = ee_sorted.windows(2).any(|w| w[0] == w[1]);
    viol!("external_edge", if dup { "duplicates" } else { "wrong-set" }, case, format!("cells of depth {} outside the cell and adjacent to it: {}", dd, show(&ext)), show(&ee));
  }
  let ees = match guarded(move || if use_free_fns { nested::external_edge_sorted(depth, h, delta) } else { layer.external_edge_sorted(h, delta) }) {
    Ok(v) => v.into_vec(),
    Err(m) => viol!("external_edge_sorted", "panic-in-domain", case, show(&ext), format!("panic: {}", m)),
  };
  if ees != ext {
    viol!("external_edge_sorted", "wrong-set", case, show(&ext), show(&ees));
  }
  // --- structured variant
  let (sides, corners_v) = sides_and_corners(depth, h, delta);
  let n = nside(dd);
  let st = match guarded(move || {
    let s = if use_free_fns { nested::external_edge_struct(depth, h, delta) } else { layer.external_edge_struct(h, delta) };
    let c = [s.get_corner(&Cardinal::S), s.get_corner(&Cardinal::E), s.get_corner(&Cardinal::N), s.get_corner(&Cardinal::W)];
    let e = [s.get_edge(&Ordinal::SE).to_vec(), s.get_edge(&Ordinal::SW).to_vec(), s.get_edge(&Ordinal::NE).to_vec(), s.get_edge(&Ordinal::NW).to_vec()];
    (c, e)
  }) {
    Ok(v) => v,
    Err(m) => viol!("external_edge_struct", "panic-in-domain", case, "a structure".into(), format!("panic: {}", m)),
  };
  // expected filing, from geometry: an external cell faces a side if it shares 2 vertices with it,
  // a corner if it shares only that corner vertex
  let side_sets: Vec<std::collections::HashSet<(i64, i64)>> = sides.iter().map(|v| v.iter().copied().collect()).collect();
  let mut exp_sides: [Vec<u64>; 4] = Default::default();
  let mut exp_corners: [Option<u64>; 4] = [None; 4];
  for &e in &ext {
    let ev: Vec<(i64, i64)> = vertices_lattice(dd, e).iter().map(|&(x, y)| canon_vertex(n, x, y).expect("oracle")).collect();
    let mut filed = false;
    for k in 0..4 {
      let shared = ev.iter().filter(|v| side_sets[k].contains(v)).count();
      if shared >= 2 {
        exp_sides[k].push(e);
        filed = true;
      }
    }
    if !filed {
      for k in 0..4 {
        if ev.contains(&corners_v[k]) {
          if exp_corners[k].is_some() {
            panic!("oracle: two corner cells");
          }
          exp_corners[k] = Some(e);
          filed = true;
        }
      }
    }
    if !filed {
      panic!("oracle: external cell {} of {}/{} faces nothing", e, depth, h);
    }
  }
  part.validated += 1;
  for k in 0..4 {
    let mut got = st.1[k].clone();
    got.sort();
    if got != exp_sides[k] {
      viol!("external_edge_struct", "wrong-side", case, format!("{} side: {}", ORD[k], show(&exp_sides[k])), format!("{}", show(&st.1[k])));
    }
    if st.0[k] != exp_corners[k] {
      viol!("external_edge_struct", "wrong-corner", case, format!("{} corner: {:?}", CARD[k], exp_corners[k]), format!("{:?}", st.0[k]));
    }
  }
  None
}



/// Internal edge only, for huge delta_depth (outputs of 10^7 cells): the walk is compared
/// element by element with the reference descendants, without building the reference vectors.
pub fn check_internal_huge(depth: u8, h: u64, delta: u8, part: &mut Part) -> Option<Viol> {
  let mut case = case_json(depth, h, delta);
  case["internal_only"] = json!(true);
  journal("edges (huge delta)", || case.clone());
  let m = (1u32 << delta) - 1;
  let expected_len = (4usize << delta) - 4;
  let ie = match guarded(move || nested::internal_edge(depth, h, delta)) {
    Ok(v) => v,
    Err(msg) => return Some(Viol { api: "nested::internal_edge".into(), kind: "panic-in-domain".into(), case, expected: format!("{} cells", expected_len), actual: format!("panic: {}", msg) }),
  };
  part.validated += 1;
  if ie.len() != expected_len {
    return Some(Viol { api: "internal_edge".into(), kind: "wrong-walk".into(), case, expected: format!("{} cells", expected_len), actual: format!("{} cells", ie.len()) });
  }
  let at = |k: usize| -> u64 {
    let (side, t) = (k / m as usize, (k % m as usize) as u32);
    match side {
      0 => descendant(depth, h, delta, t, 0),
      1 => descendant(depth, h, delta, m, t),
      2 => descendant(depth, h, delta, m - t, m),
      _ => descendant(depth, h, delta, 0, m - t),
    }
  };
  let mut digest = 0u64;
  for (k, &c) in ie.iter().enumerate() {
    let e = at(k);
    digest = digest.wrapping_mul(1_000_003) ^ c;
    if c != e {
      return Some(Viol { api: "internal_edge".into(), kind: "wrong-walk".into(), case, expected: format!("element {} of the closed walk = {}", k, e), actual: c.to_string() });
    }
  }
  part.outcome(digest);
  let ies = match guarded(move || nested::internal_edge_sorted(depth, h, delta)) {
    Ok(v) => v,
    Err(msg) => return Some(Viol { api: "nested::internal_edge_sorted".into(), kind: "panic-in-domain".into(), case, expected: "the sorted walk".into(), actual: format!("panic: {}", msg) }),
  };
  let mut sorted = ie.into_vec();
  sorted.sort_unstable();
  if ies.len() != sorted.len() || ies.iter().zip(sorted.iter()).any(|(a, b)| a != b) {
    let k = ies.iter().zip(sorted.iter()).position(|(a, b)| a != b).unwrap_or(0);
    return Some(Viol { api: "internal_edge_sorted".into(), kind: "wrong-set".into(), case, expected: format!("element {} = {}", k, sorted.get(k).copied().unwrap_or(0)), actual: format!("{:?}", ies.get(k)) });
  }
  drop(sorted);
  drop(ies);
  // the four side helpers (three forms), element by element after sorting
  let side_of = |hh: u64, k: usize| -> Vec<u64> {
    let mut v: Vec<u64> = (0..=m)
      .map(|t| match k {
        0 => descendant(depth, hh, delta, t, 0),
        1 => descendant(depth, hh, delta, 0, t),
        2 => descendant(depth, hh, delta, m, t),
        _ => descendant(depth, hh, delta, t, m),
      })
      .collect();
    v.sort_unstable();
    v
  };
  for k in 0..4usize {
    let exp = side_of(h, k);
    for form in 0..3u8 {
      let got = guarded(move || match form {
        0 => nested::internal_edge_part(h, delta, &ordinal(k)).into_vec(),
        1 => match k {
          0 => nested::internal_edge_southeast(h, delta),
          1 => nested::internal_edge_southwest(h, delta),
          2 => nested::internal_edge_northeast(h, delta),
          _ => nested::internal_edge_northwest(h, delta),
        }
        .into_vec(),
        _ => {
          let mut c: Vec<u64> = vec![];
          nested::append_internal_edge_part(h, delta, &ordinal(k), &mut c);
          c
        }
      });
      part.validated += 1;
      match got {
        Ok(mut a) => {
          a.sort_unstable();
          if a != exp {
            let pos = a.iter().zip(exp.iter()).position(|(x, y)| x != y).unwrap_or(a.len().min(exp.len()));
            return Some(Viol { api: "internal_edge_part".into(), kind: "wrong-side".into(), case, expected: format!("{} side (form {}): {} cells, sorted element {} = {:?}", ORD[k], form, exp.len(), pos, exp.get(pos)), actual: format!("{} cells, sorted element {} = {:?}", a.len(), pos, a.get(pos)) });
          }
        }
        Err(msg) => return Some(Viol { api: "internal_edge_part".into(), kind: "panic-in-domain".into(), case, expected: "a side".into(), actual: msg }),
      }
    }
  }
  // external edge of a cell whose 8 neighbours lie in its base cell: the facing sides of the 4
  // side neighbours and the facing corner of the 4 corner neighbours
  let (d0h, i, j) = decode(depth, h);
  let n = nside(depth) as u32;
  if depth > 0 && i >= 1 && j >= 1 && i + 1 < n && j + 1 < n {
    let nb = |di: i32, dj: i32| encode(depth, d0h, (i as i32 + di) as u32, (j as i32 + dj) as u32);
    let mut exp: Vec<u64> = vec![];
    exp.extend(side_of(nb(0, -1), 3)); // SE neighbour: its NW side (j = m)
    exp.extend(side_of(nb(-1, 0), 2)); // SW neighbour: its NE side (i = m)
    exp.extend(side_of(nb(1, 0), 1)); // NE neighbour: its SW side (i = 0)
    exp.extend(side_of(nb(0, 1), 0)); // NW neighbour: its SE side (j = 0)
    exp.push(descendant(depth, nb(-1, -1), delta, m, m)); // S
    exp.push(descendant(depth, nb(1, -1), delta, 0, m)); // E
    exp.push(descendant(depth, nb(1, 1), delta, 0, 0)); // N
    exp.push(descendant(depth, nb(-1, 1), delta, m, 0)); // W
    exp.sort_unstable();
    for form in 0..3u8 {
      let got = guarded(move || match form {
        0 => nested::external_edge_sorted(depth, h, delta).into_vec(),
        1 => nested::external_edge(depth, h, delta).into_vec(),
        _ => {
          let s = nested::external_edge_struct(depth, h, delta);
          let mut v: Vec<u64> = vec![];
          for c in [Cardinal::S, Cardinal::E, Cardinal::N, Cardinal::W] {
            v.extend(s.get_corner(&c));
          }
          for o in [Ordinal::SE, Ordinal::SW, Ordinal::NE, Ordinal::NW] {
            v.extend(s.get_edge(&o).iter().copied());
          }
          v
        }
      });
      part.validated += 1;
      match got {
        Ok(mut a) => {
          if form == 0 && a.windows(2).any(|w| w[0] >= w[1]) {
            return Some(Viol { api: "external_edge_sorted".into(), kind: "not-sorted".into(), case, expected: "strictly increasing".into(), actual: format!("{} cells", a.len()) });
          }
          a.sort_unstable();
          if a != exp {
            let pos = a.iter().zip(exp.iter()).position(|(x, y)| x != y).unwrap_or(a.len().min(exp.len()));
            return Some(Viol { api: "external_edge".into(), kind: "wrong-set".into(), case, expected: format!("form {}: {} cells, sorted element {} = {:?}", form, exp.len(), pos, exp.get(pos)), actual: format!("{} cells, sorted element {} = {:?}", a.len(), pos, a.get(pos)) });
          }
        }
        Err(msg) => return Some(Viol { api: "external_edge".into(), kind: "panic-in-domain".into(), case, expected: "the external edge".into(), actual: msg }),
      }
    }
  }
  None
}

/// Direct, exhaustive check of the two public direction helpers of lib.rs the structured variant is
/// built on: for every cell on the border of a base cell (depths 0..=max_d) and every neighbour
/// lying in another base cell, the direction of the cell seen from that neighbour (reference: the
/// vertex-sharing label of R2) -- and the documented panics of `direction_from_neighbour`.
fn mw_index(m: &cdshealpix::compass_point::MainWind) -> usize {
  (0..9u8).find(|&k| cdshealpix::compass_point::MainWind::from_index(k) == *m).unwrap() as usize
}

fn check_direction_helpers(max_d: u8, part: &mut Part) {
  use cdshealpix::compass_point::MainWind;
  for d in 0..=max_d {
    let n = nside(d) as u32;
    for h in all_cells(d) {
      let (b, i, j) = decode(d, h);
      if !(i == 0 || j == 0 || i == n - 1 || j == n - 1) {
        continue;
      }
      // position of the cell in the border of its base cell
      let inner: usize = if d == 0 {
        4
      } else if i == 0 && j == 0 {
        0
      } else if i == n - 1 && j == 0 {
        2
      } else if i == n - 1 && j == n - 1 {
        8
      } else if i == 0 && j == n - 1 {
        6
      } else if j == 0 {
        1
      } else if i == 0 {
        3
      } else if i == n - 1 {
        5
      } else {
        7
      };
      let nbs = ref_neighbours(d, h);
      for &(dir, nb) in &nbs {
        let (b2, _, _) = decode(d, nb);
        if b2 == b {
          continue;
        }
        let back = ref_neighbours(d, nb).into_iter().find(|e| e.1 == h).expect("oracle: adjacency not symmetric").0;
        let case = json!({"depth": d, "hash": h.to_string(), "delta_depth": 0, "helper": true, "neighbour_direction": DIR_NAMES[dir]});
        part.stratum("direction-helpers", 1, 2);
        part.validated += 1;
        if d == 0 {
          match guarded(move || cdshealpix::direction_from_neighbour(b, &MainWind::from_index(dir as u8))) {
            Ok(m) => {
              part.outcome(hash64(&[b as u64, dir as u64, mw_index(&m) as u64]));
              if mw_index(&m) != back {
                part.viol(Viol { api: "direction_from_neighbour".into(), kind: "wrong-direction".into(), case, expected: DIR_NAMES[back].into(), actual: format!("{:?}", m) });
              }
            }
            Err(m) => part.viol(Viol { api: "direction_from_neighbour".into(), kind: "panic-in-domain".into(), case, expected: DIR_NAMES[back].into(), actual: m }),
          }
        } else {
          match guarded(move || cdshealpix::edge_cell_direction_from_neighbour(b, &MainWind::from_index(inner as u8), &MainWind::from_index(dir as u8))) {
            Ok(m) => {
              part.outcome(hash64(&[b as u64, inner as u64, dir as u64, mw_index(&m) as u64]));
              if mw_index(&m) != back {
                part.viol(Viol { api: "edge_cell_direction_from_neighbour".into(), kind: "wrong-direction".into(), case, expected: format!("{} (cell at the {} of base cell {})", DIR_NAMES[back], DIR_NAMES[inner], b), actual: format!("{:?}", m) });
              }
            }
            Err(m) => part.viol(Viol { api: "edge_cell_direction_from_neighbour".into(), kind: "panic-in-domain".into(), case, expected: DIR_NAMES[back].into(), actual: m }),
          }
        }
      }
      if d == 0 {
        // documented panics: no neighbour in that direction
        for dir in 0..9usize {
          if nbs.iter().any(|e| e.0 == dir) {
            continue;
          }
          part.stratum("direction-helpers", 1, 1);
          if let Ok(m) = guarded(move || cdshealpix::direction_from_neighbour(b, &MainWind::from_index(dir as u8))) {
            let case = json!({"depth": 0, "hash": h.to_string(), "delta_depth": 0, "helper": true, "neighbour_direction": DIR_NAMES[dir]});
            part.viol(Viol { api: "direction_from_neighbour".into(), kind: "no-neighbour-accepted".into(), case, expected: "panic (documented): the base cell has no neighbour in that direction".into(), actual: format!("{:?}", m) });
          }
        }
      }
    }
  }
}

pub fn run(ctx: &Ctx) -> i32 {
  let quick = ctx.quick();
  let d_exh: u8 = if quick { 3 } else { 6 };
  let max_delta: u8 = if quick { 4 } else { 6 };
  let mut jobs: Vec<(u8, u64, u64, bool)> = vec![];
  for d in 0..=d_exh {
    let nh = n_hash(d);
    let step = 64u64;
    let mut lo = 0;
    while lo < nh {
      jobs.push((d, lo, (lo + step).min(nh), false));
      lo += step;
    }
  }
  for d in (d_exh + 1)..=28 {
    jobs.push((d, 0, 0, true));
  }
  let mut total = par_jobs(jobs.len(), |j| {
    let (d, lo, hi, deep) = jobs[j];
    let mut part = Part::new();
    if ctx.over_budget() {
      part.caps.push(format!("wall budget {}s reached in C14 enumeration", ctx.budget_s));
      return part;
    }
    if !deep {
      for h in lo..hi {
        for delta in 1..=max_delta {
          if d + delta > 29 {
            continue;
          }
          part.stratum("all-cells", 1, 22);
          if let Some(v) = check(d, h, delta, (h + delta as u64) % 2 == 0, &mut part) {
            part.viol(v);
          }
        }
      }
    } else {
      let cells = class_cells(d);
      // delta_depth sweep: EVERY delta_depth up to 12 (16 thorough) on three cells of four depths
      if d == 10 || d == 17 || d == 7 || d == 13 {
        let dmax = if quick { 12u8 } else { 16 };
        let n = nside(d) as u32;
        for h in [encode(d, 2, n - 1, n - 1), encode(d, 5, n / 3 + 1, 0), encode(d, 9, (n / 5) | 1, (n / 7) | 2)] {
          for delta in 4..=dmax {
            if d + delta > 29 {
              continue;
            }
            part.stratum("delta-depth-sweep", 1, 22);
            if let Some(v) = check(d, h, delta, delta % 2 == 0, &mut part) {
              part.viol(v);
            }
          }
        }
      }
      let hw: Vec<u64> = if d == 17 || d == 24 { halfword_sweep_cells(d).into_iter().step_by(if quick { 16 } else { 2 }).collect() } else { vec![] };
      for &h in carry_cells(d, false).iter().step_by(if quick { 3 } else { 1 }).chain(hw.iter()) {
        for delta in [1u8, 2] {
          if d + delta > 29 {
            continue;
          }
          part.stratum("carry-chain-cells", 1, 22);
          if let Some(v) = check(d, h, delta, (h + delta as u64) % 2 == 0, &mut part) {
            part.viol(v);
          }
        }
      }
      for &h in &cells {
        for delta in 1..=3u8 {
          if d + delta > 29 {
            continue;
          }
          part.stratum("border-class-cells", 1, 22);
          if let Some(v) = check(d, h, delta, (h + delta as u64) % 2 == 0, &mut part) {
            part.viol(v);
          }
        }
      }
      // larger delta_depth on a thinned subset (output of 4 * 2^delta cells): every z-order
      // implementation class is reached (delta 1..8, 9..16, 17..)
      if d == 6 || d == 11 {
        for &h in cells.iter().step_by(if quick { 211 } else { 53 }) {
          for delta in [9u8, 13, 17] {
            if d + delta > 29 || (quick && delta == 17) {
              continue;
            }
            part.stratum("border-class-cells-large-delta", 1, 22);
            if let Some(v) = check(d, h, delta, (h + delta as u64) % 2 == 0, &mut part) {
              part.viol(v);
            }
          }
        }
      }
      if d == 10 || d == 20 || (!quick && (d == 7 || d == 15)) {
        for &h in cells.iter().step_by(17) {
          for delta in [5u8, 8] {
            if d + delta > 29 {
              continue;
            }
            part.stratum("border-class-cells-large-delta", 1, 22);
            if let Some(v) = check(d, h, delta, (h + delta as u64) % 2 == 0, &mut part) {
              part.viol(v);
            }
          }
        }
      }
      if d == 26 {
        let h = cells[cells.len() / 2];
        part.sample(json!({"depth": d, "hash": h.to_string(), "delta_depth": 3, "external_edge_sorted": format!("{:?}", guarded(|| nested::external_edge_sorted(d, h, 3)).map(|v| v.len()))}));
      }
    }
    part
  });
  check_direction_helpers(if quick { 3 } else { 6 }, &mut total);
  // huge delta_depth (internal edge, the side helpers, the external edge of inner cells): 8.4e6 .. 3.4e7 cells
  {
    let items: Vec<(u8, u64, u8)> = if quick { vec![(3, 437, 21), (8, 500_001, 21)] } else { vec![(3, 437, 21), (8, 500_001, 21), (0, 7, 22), (5, 9000, 23), (6, 40_000, 19), (1, 30, 20)] };
    let huge = par_jobs(items.len(), |k| {
      let (d, h, delta) = items[k];
      let mut part = Part::new();
      part.stratum("huge-delta-internal-edge", 1, 2);
      if let Some(v) = check_internal_huge(d, h, delta, &mut part) {
        part.viol(v);
      }
      part
    });
    total.merge(huge);
  }
  // out-of-range hash on the checked entry points
  for (d, h) in [0u8, 3, 12, 28].iter().flat_map(|&d| out_of_range_hashes(d).into_iter().map(move |h| (d, h))) {
    let layer = nested::get_or_create(d);
    // every delta_depth of the domain
    for delta in 1..=3u8 {
      if d + delta > 29 {
        continue;
      }
      total.stratum("out-of-range", 1, 3);
      for (api, ok) in [
        ("external_edge", guarded(|| layer.external_edge(h, delta)).is_ok()),
        ("external_edge_sorted", guarded(|| layer.external_edge_sorted(h, delta)).is_ok()),
        ("external_edge_struct", guarded(|| layer.external_edge_struct(h, delta).get_corner(&Cardinal::S)).is_ok()),
      ] {
        if ok {
          total.viol(Viol { api: api.into(), kind: "out-of-range-accepted".into(), case: case_json(d, h, delta), expected: "panic".into(), actual: "returned".into() });
        }
      }
    }
  }
  finish(
    ctx,
    total,
    json!({"exhaustive_depths": format!("0..={} x delta_depth 1..={}", d_exh, max_delta), "class_depths": format!("{}..=28 x delta_depth 1..=3 (depth + delta <= 29)", d_exh + 1),
      "entry_points": "Layer methods and the free functions of the nested module (alternating), internal_edge(_sorted), 4 corner helpers x 2 forms, 4 side helpers x 3 forms, external_edge(_sorted), external_edge_struct (4 corners + 4 sides)"}),
    "all cells of the exhaustive depths and the border-class cells of the deeper depths, for every delta_depth of the bounds",
    vec!["lattice model R2: descendants, adjacency at the deeper depth, canonical vertices of the sides and corners of the cell".into(), "delta_depth = 0 is outside the statement's domain".into()],
    Map::new(),
  )
}

pub fn replay(case: &Value) -> Option<Viol> {
  let mut part = Part::new();
  let d = case["depth"].as_u64().unwrap() as u8;
  let h = u64_from_json(&case["hash"]);
  let delta = case["delta_depth"].as_u64().unwrap() as u8;
  if case.get("internal_only").is_some() {
    return check_internal_huge(d, h, delta, &mut part);
  }
  if case.get("helper").is_some() {
    check_direction_helpers(d, &mut part);
    return part.viols.into_iter().next();
  }
  if h >= n_hash(d) {
    return if guarded(|| nested::get_or_create(d).external_edge(h, delta)).is_ok() { Some(Viol { api: "external_edge".into(), kind: "out-of-range-accepted".into(), case: case.clone(), expected: "panic".into(), actual: "returned".into() }) } else { None };
  }
  check(d, h, delta, false, &mut part).or_else(|| check(d, h, delta, true, &mut part))
}
