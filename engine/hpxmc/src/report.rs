//! Result collection, evidence / replay / result files, known-finding bookkeeping.

use serde_json::{json, Map, Value};
use std::collections::{BTreeMap, HashSet};
use std::time::Instant;

pub const MAX_KEPT_VIOLS: usize = 12;
pub const MAX_OUTCOMES: usize = 200_000;

/// One violation: a concrete case re-executable through `--replay`.
#[derive(Clone, Debug)]
pub struct Viol {
  pub api: String,
  pub kind: String,
  pub case: Value,
  pub expected: String,
  pub actual: String,
}

/// Partial result of one worker (merged in job order => deterministic output).
#[derive(Default)]
pub struct Part {
  pub states: u64,
  pub transitions: u64,
  pub validated: u64,
  pub nviol: u64,
  pub viols: Vec<Viol>,
  /// known finding key -> (count, first example)
  pub known: BTreeMap<String, (u64, Value)>,
  pub outcomes: HashSet<u64>,
  pub samples: Vec<Value>,
  /// stratum name -> (states, transitions)
  pub strata: BTreeMap<String, (u64, u64)>,
  pub caps: Vec<String>,
  /// free-form data handed from the workers to the caller (merged in job order, uncapped)
  pub payload: Vec<Value>,
  /// violation (api, kind) -> count
  pub kinds: BTreeMap<String, u64>,
  /// fingerprints of new states found in a final search layer (counted, not stored; capped)
  pub fps: HashSet<u64>,
}

impl Part {
  pub fn new() -> Part {
    Part::default()
  }
  pub fn viol(&mut self, v: Viol) {
    self.nviol += 1;
    *self.kinds.entry(format!("{} / {}", v.api, v.kind)).or_insert(0) += 1;
    if self.viols.len() < MAX_KEPT_VIOLS {
      self.viols.push(v);
    }
  }
  pub fn known(&mut self, key: &str, example: Value) {
    let e = self.known.entry(key.to_string()).or_insert((0, example));
    e.0 += 1;
  }
  pub fn outcome(&mut self, o: u64) {
    if self.outcomes.len() < MAX_OUTCOMES {
      self.outcomes.insert(o);
    }
  }
  pub fn sample(&mut self, v: Value) {
    if self.samples.len() < 4 {
      self.samples.push(v);
    }
  }
  pub fn stratum(&mut self, name: &str, states: u64, transitions: u64) {
    let e = self.strata.entry(name.to_string()).or_insert((0, 0));
    e.0 += states;
    e.1 += transitions;
    self.states += states;
    self.transitions += transitions;
  }
  pub fn merge(&mut self, o: Part) {
    self.states += o.states;
    self.transitions += o.transitions;
    self.validated += o.validated;
    self.nviol += o.nviol;
    for v in o.viols {
      if self.viols.len() < MAX_KEPT_VIOLS {
        self.viols.push(v);
      }
    }
    for (k, (c, ex)) in o.known {
      let e = self.known.entry(k).or_insert((0, ex));
      e.0 += c;
    }
    for x in o.outcomes {
      if self.outcomes.len() < MAX_OUTCOMES {
        self.outcomes.insert(x);
      }
    }
    for s in o.samples {
      if self.samples.len() < 6 {
        self.samples.push(s);
      }
    }
    for (k, (s, t)) in o.strata {
      let e = self.strata.entry(k).or_insert((0, 0));
      e.0 += s;
      e.1 += t;
    }
    self.payload.extend(o.payload);
    for x in o.fps {
      if self.fps.len() < 4_000_000 {
        self.fps.insert(x);
      }
    }
    for (k, c) in o.kinds {
      *self.kinds.entry(k).or_insert(0) += c;
    }
    for c in o.caps {
      if !self.caps.contains(&c) {
        self.caps.push(c);
      }
    }
  }
}

/// Run-level context.
pub struct Ctx {
  pub id: String,
  pub tier: String,
  pub seed: i64,
  pub verif_dir: String,
  pub start: Instant,
  pub config: String,
  pub findings: Findings,
  /// wall-clock budget (s) after which enumerations stop and report a cap
  pub budget_s: f64,
}

impl Ctx {
  pub fn quick(&self) -> bool {
    self.tier == "quick"
  }
  pub fn elapsed(&self) -> f64 {
    self.start.elapsed().as_secs_f64()
  }
  pub fn over_budget(&self) -> bool {
    self.elapsed() > self.budget_s
  }
}

/// The committed list of known findings (never written at run time).
pub struct Findings {
  pub raw: Value,
}

impl Findings {
  pub fn load(verif_dir: &str) -> Findings {
    let p = format!("{}/known_findings.json", verif_dir);
    let raw = match std::fs::read_to_string(&p) {
      Ok(s) => serde_json::from_str(&s).unwrap_or_else(|e| panic!("bad {}: {}", p, e)),
      Err(_) => json!({"version": 1, "findings": [], "fixed": []}),
    };
    Findings { raw }
  }
  /// Is a finding with this key listed for this property (as owner or in `also_reported_by`)?
  pub fn listed(&self, property: &str, key: &str) -> bool {
    if let Some(arr) = self.raw.get("findings").and_then(|f| f.as_array()) {
      for f in arr {
        if f.get("key").and_then(|k| k.as_str()) == Some(key) {
          let owner = f.get("property").and_then(|k| k.as_str()) == Some(property);
          let also = f
            .get("also_reported_by")
            .and_then(|a| a.as_array())
            .map(|a| a.iter().any(|x| x.as_str() == Some(property)))
            .unwrap_or(false);
          if owner || also {
            return true;
          }
        }
      }
    }
    false
  }
  /// The witness recorded for a finding (re-executed on every run: information only).
  pub fn witness(&self, key: &str) -> Option<Value> {
    self.raw.get("findings")?.as_array()?.iter().find(|f| f.get("key").and_then(|k| k.as_str()) == Some(key))?.get("witness").cloned()
  }
  pub fn describe(&self, key: &str) -> String {
    if let Some(arr) = self.raw.get("findings").and_then(|f| f.as_array()) {
      for f in arr {
        if f.get("key").and_then(|k| k.as_str()) == Some(key) {
          return format!(
            "{} [{}]",
            f.get("id").and_then(|k| k.as_str()).unwrap_or("?"),
            f.get("summary").and_then(|k| k.as_str()).unwrap_or(key)
          );
        }
      }
    }
    key.to_string()
  }
}

pub fn f64_json(v: f64) -> Value {
  json!({"bits": format!("0x{:016x}", v.to_bits()), "approx": format!("{:e}", v)})
}
pub fn f64_from_json(v: &Value) -> f64 {
  if let Some(s) = v.get("bits").and_then(|b| b.as_str()) {
    return f64::from_bits(u64::from_str_radix(s.trim_start_matches("0x"), 16).expect("bad bits"));
  }
  if let Some(f) = v.as_f64() {
    return f;
  }
  panic!("bad f64 json: {}", v)
}
pub fn u64_from_json(v: &Value) -> u64 {
  if let Some(u) = v.as_u64() {
    return u;
  }
  if let Some(s) = v.as_str() {
    return s.parse().expect("bad u64");
  }
  panic!("bad u64 json {}", v)
}

/// Registered by hpxmc: runs the call-sequence stratum of the property (seq.rs), if it has one.
pub type SeqHook = fn(&Ctx, &mut Part) -> Option<Value>;
pub static SEQ_HOOK: std::sync::OnceLock<SeqHook> = std::sync::OnceLock::new();

/// Final step of a check run: write evidence, replays, the result file read by ./check.
pub fn finish(
  ctx: &Ctx,
  total: Part,
  bounds: Value,
  exhaustive_space: &str,
  assumptions: Vec<String>,
  extra: Map<String, Value>,
) -> i32 {
  let id = &ctx.id;
  // call-sequence stratum (history independence), common to every property that has an alphabet
  let mut total = total;
  let mut extra = extra;
  if let Some(hook) = SEQ_HOOK.get() {
    if let Some(info) = hook(ctx, &mut total) {
      extra.insert("call_sequences".into(), info);
    }
  }
  let wall = ctx.elapsed();
  std::fs::create_dir_all(format!("{}/evidence", ctx.verif_dir)).ok();
  std::fs::create_dir_all(format!("{}/replays", ctx.verif_dir)).ok();
  std::fs::create_dir_all(format!("{}/engine/out", ctx.verif_dir)).ok();
  // replays
  let mut replay_paths = vec![];
  for (k, v) in total.viols.iter().enumerate() {
    let path = if ctx.config == "release" {
      format!("{}/replays/{}-{}.json", ctx.verif_dir, id, k)
    } else {
      format!("{}/replays/{}-{}-{}.json", ctx.verif_dir, id, ctx.config, k)
    };
    let doc = json!({
      "property": id, "tier": ctx.tier, "config": ctx.config, "api": v.api, "kind": v.kind,
      "case": v.case, "expected": v.expected, "actual": v.actual, "matched_finding": Value::Null,
    });
    std::fs::write(&path, serde_json::to_string_pretty(&doc).unwrap()).expect("write replay");
    replay_paths.push(path);
  }
  let capped = !total.caps.is_empty();
  let mut samples = total.samples.clone();
  if samples.is_empty() {
    samples.push(json!({"note": "no sample recorded"}));
  }
  let strata: Vec<Value> = total
    .strata
    .iter()
    .map(|(k, (s, t))| json!({"name": k, "states": s, "transitions": t}))
    .collect();
  let known: Map<String, Value> = total
    .known
    .iter()
    .map(|(k, (c, ex))| (k.clone(), json!({"count": c, "example": ex})))
    .collect();
  let distinct = total.outcomes.len();
  let mut coverage = json!({
    "states": total.states.max(1),
    "transitions": total.transitions.max(1),
    "traces_validated_against_impl": total.validated,
    "samples": samples,
    "exhaustive": !capped,
    "exhaustive_over": exhaustive_space,
    "bounds": bounds,
    "per_stratum": strata,
    "distinct_outcomes": distinct,
    "known_findings_matched": known,
    "caps_hit": total.caps,
    "configuration": ctx.config,
    "rule": "states = distinct enumerated configurations (alphabet elements / reached values / schedules), counted by the engine; transitions = implementation calls executed on them; traces_validated_against_impl = reference-model predictions compared with an actual implementation result; distinct_outcomes = number of distinct results observed (capped at 200000), the anti-vacuity counter",
  });
  if distinct <= 1 && total.transitions > 100 {
    coverage["explanation"] = json!("SUSPICIOUS: a single distinct outcome over many executions");
  }
  for (k, v) in extra {
    coverage[k] = v;
  }
  let ev = json!({
    "property_id": id, "tier": ctx.tier, "seed": ctx.seed, "level": "model_checking",
    "coverage": coverage, "assumptions": assumptions, "wall_s": wall, "violations": total.nviol,
  });
  // one evidence part per build configuration; ./check merges the parts into evidence/<id>.json
  let ev_path = format!("{}/engine/out/{}.{}.evidence.json", ctx.verif_dir, id, ctx.config);
  std::fs::write(&ev_path, serde_json::to_string_pretty(&ev).unwrap()).expect("write evidence");
  // result for the driver
  let known_lines: Vec<String> = total
    .known
    .iter()
    .map(|(k, (c, ex))| {
      format!("KNOWN-FINDING: property={} {}: {} cases, e.g. {}", id, ctx.findings.describe(k), c, ex)
    })
    .collect();
  let res = json!({
    "property": id, "tier": ctx.tier, "config": ctx.config, "violations": total.nviol,
    "replays": replay_paths, "known_lines": known_lines, "caps": ev["coverage"]["caps_hit"],
    "states": total.states, "transitions": total.transitions, "wall_s": wall, "violation_kinds": total.kinds,
    "first": total.viols.first().map(|v| json!({"api": v.api, "kind": v.kind, "expected": v.expected, "actual": v.actual})),
  });
  let res_path = format!("{}/engine/out/{}.{}.result.json", ctx.verif_dir, id, ctx.config);
  std::fs::write(&res_path, serde_json::to_string_pretty(&res).unwrap()).expect("write result");
  eprintln!(
    "[hpxmc] {} tier={} config={} states={} transitions={} outcomes={} violations={} known={} wall={:.1}s{}",
    id, ctx.tier, ctx.config, total.states, total.transitions, distinct, total.nviol,
    total.known.values().map(|x| x.0).sum::<u64>(), wall,
    if capped { " (CAPPED)" } else { "" }
  );
  if total.nviol > 0 { 1 } else { 0 }
}

/// Run `njobs` jobs on `nthreads` workers; results are merged in job order (deterministic).
pub fn par_jobs<F>(njobs: usize, f: F) -> Part
where
  F: Fn(usize) -> Part + Sync,
{
  use std::sync::atomic::{AtomicUsize, Ordering};
  use std::sync::Mutex;
  let nthreads = std::thread::available_parallelism().map(|n| n.get()).unwrap_or(4).min(16).min(njobs.max(1));
  let next = AtomicUsize::new(0);
  let results: Mutex<Vec<Option<Part>>> = Mutex::new((0..njobs).map(|_| None).collect());
  std::thread::scope(|s| {
    for _ in 0..nthreads {
      s.spawn(|| loop {
        let j = next.fetch_add(1, Ordering::SeqCst);
        if j >= njobs {
          break;
        }
        let p = f(j);
        results.lock().unwrap()[j] = Some(p);
      });
    }
  });
  let mut total = Part::new();
  for p in results.into_inner().unwrap() {
    total.merge(p.expect("job result missing"));
  }
  total
}

// ---------------------------------------------------------------------------------------------
// post-mortem journal: when HPXMC_JOURNAL names a directory (set by ./check after an engine died
// abnormally -- abort on a failed allocation, kill by the memory cap, time-out), every worker
// thread overwrites its own file with the case it is about to hand to the subject.  After the next
// abnormal death the files hold the cases that were in flight; ./check replays each of them alone
// in a capped subprocess to find the call that does not come back.
// ---------------------------------------------------------------------------------------------
pub fn journal_dir() -> Option<&'static String> {
  static DIR: std::sync::OnceLock<Option<String>> = std::sync::OnceLock::new();
  DIR.get_or_init(|| std::env::var("HPXMC_JOURNAL").ok().filter(|d| !d.is_empty())).as_ref()
}

pub fn journal<F: FnOnce() -> Value>(api: &str, case: F) {
  use std::io::{Seek, SeekFrom, Write};
  // the file of a worker is removed when the worker ends normally: what is left after an abnormal
  // death are the cases of the threads that were alive
  struct Jf(std::fs::File, String);
  impl Drop for Jf {
    fn drop(&mut self) {
      let _ = std::fs::remove_file(&self.1);
    }
  }
  impl Jf {
    fn set_len(&mut self, n: u64) -> std::io::Result<()> { self.0.set_len(n) }
    fn seek(&mut self, p: SeekFrom) -> std::io::Result<u64> { self.0.seek(p) }
    fn write_all(&mut self, b: &[u8]) -> std::io::Result<()> { self.0.write_all(b) }
    fn flush(&mut self) -> std::io::Result<()> { self.0.flush() }
  }
  thread_local! { static JF: std::cell::RefCell<Option<Jf>> = std::cell::RefCell::new(None); }
  let dir = match journal_dir() {
    Some(d) => d,
    None => return,
  };
  static NEXT: std::sync::atomic::AtomicUsize = std::sync::atomic::AtomicUsize::new(0);
  JF.with(|jf| {
    let mut jf = jf.borrow_mut();
    if jf.is_none() {
      let k = NEXT.fetch_add(1, std::sync::atomic::Ordering::SeqCst);
      let path = format!("{}/inflight-{}.json", dir, k);
      *jf = std::fs::File::create(&path).ok().map(|f| Jf(f, path));
    }
    if let Some(f) = jf.as_mut() {
      let text = json!({"api": api, "case": case()}).to_string();
      let _ = f.set_len(0);
      let _ = f.seek(SeekFrom::Start(0));
      let _ = f.write_all(text.as_bytes());
      let _ = f.flush();
    }
  });
}

/// Call the subject, turning a panic into `Err(message)`.
pub fn guarded<T, F: FnOnce() -> T>(f: F) -> Result<T, String> {
  match std::panic::catch_unwind(std::panic::AssertUnwindSafe(f)) {
    Ok(v) => Ok(v),
    Err(e) => {
      let msg = if let Some(s) = e.downcast_ref::<&str>() {
        s.to_string()
      } else if let Some(s) = e.downcast_ref::<String>() {
        s.clone()
      } else {
        "panic".to_string()
      };
      Err(msg)
    }
  }
}

pub fn hash64(words: &[u64]) -> u64 {
  // FNV-1a over the words (deterministic, no random state)
  let mut h: u64 = 0xcbf29ce484222325;
  for w in words {
    for b in w.to_le_bytes() {
      h ^= b as u64;
      h = h.wrapping_mul(0x100000001b3);
    }
  }
  h
}
