//! C05 (cone coverage never misses) and C06 (flags truthful, tight, packed) -- shape S with a
//! witness oracle.  Also hosts helpers shared with C13 / C16 (thresholds, witness tables).

use crate::alpha::*;
use crate::bm::{Bm, RangeMap, FULL};
use crate::refm::*;
use crate::report::*;
use cdshealpix::nested;
use serde_json::{json, Map, Value};
use std::sync::OnceLock;

pub const WK: usize = 9; // witness lattice 9 x 9 per cell

// ---------------------------------------------------------------------------------------------
// thresholds of best_starting_depth, recovered through the public API
// ---------------------------------------------------------------------------------------------

pub fn thresholds() -> &'static [f64; 30] {
  static T: OnceLock<[f64; 30]> = OnceLock::new();
  T.get_or_init(|| {
    let mut t = [0.0f64; 30];
    // T[0]: boundary of has_best_starting_depth
    let (mut lo, mut hi) = (1e-3f64, 3.2f64);
    assert!(cdshealpix::has_best_starting_depth(lo) && !cdshealpix::has_best_starting_depth(hi), "cannot bracket the depth-0 limit");
    for _ in 0..200 {
      let mid = 0.5 * (lo + hi);
      if mid <= lo || mid >= hi {
        break;
      }
      if cdshealpix::has_best_starting_depth(mid) { lo = mid } else { hi = mid }
    }
    t[0] = hi; // smallest refused radius
    for k in 1..30usize {
      // boundary between bsd(r) >= k (small r) and bsd(r) < k
      let (mut lo, mut hi) = (1e-12f64, next_down(t[k - 1]));
      for _ in 0..200 {
        let mid = 0.5 * (lo + hi);
        if mid <= lo || mid >= hi {
          break;
        }
        let d = guarded(move || cdshealpix::best_starting_depth(mid)).unwrap_or(0);
        if d as usize >= k { lo = mid } else { hi = mid }
      }
      t[k] = hi;
    }
    t
  })
}

/// Deepest k with T[k] > r (None if r >= T[0]).
pub fn ref_start_depth(r: f64) -> Option<u8> {
  let t = thresholds();
  if !(r < t[0]) {
    return None;
  }
  let mut k = 0usize;
  while k + 1 < 30 && r < t[k + 1] {
    k += 1;
  }
  Some(k as u8)
}

// ---------------------------------------------------------------------------------------------
// witness tables
// ---------------------------------------------------------------------------------------------

pub struct WitnessTab {
  pub depth: u8,
  pub centers: Vec<[f64; 3]>,
  /// WK*WK unit vectors per cell
  pub wit: Vec<[f64; 3]>,
}

pub fn witness_tab(depth: u8) -> &'static WitnessTab {
  const INIT: OnceLock<WitnessTab> = OnceLock::new();
  static TABS: [OnceLock<WitnessTab>; 8] = [INIT; 8];
  TABS[depth as usize].get_or_init(|| {
    let nh = n_hash(depth);
    let mut centers = Vec::with_capacity(nh as usize);
    let mut wit = Vec::with_capacity(nh as usize * WK * WK);
    for h in 0..nh {
      let (xc, yc) = center_plane(depth, h);
      let (l, b) = ref_unproj(xc, yc);
      centers.push(unit_vec(l, b));
      for (l, b) in cell_witnesses(depth, h, WK) {
        wit.push(unit_vec(l, b));
      }
    }
    WitnessTab { depth, centers, wit }
  })
}

/// Reference maximum centre-to-vertex distance of a depth (exhaustive over base cells 0 and 4 for
/// depth <= 8, a measured upper envelope 1.07 / nside beyond).
pub fn max_c2v(depth: u8) -> f64 {
  static D: OnceLock<Vec<f64>> = OnceLock::new();
  let tab = D.get_or_init(|| {
    let mut v = vec![];
    for d in 0..=8u8 {
      let n = nside(d) as f64;
      let mut best = 0.0f64;
      for b in [0u64, 4] {
        for k in 0..(1u64 << (2 * d as u32)) {
          let h = (b << (2 * d as u32)) | k;
          let (cx, cy) = center_lattice(d, h);
          let (lc, bc) = ref_unproj(cx as f64 / n, cy as f64 / n);
          for (vx, vy) in vertices_lattice(d, h) {
            let (lv, bv) = ref_unproj(vx as f64 / n, vy as f64 / n);
            let a = ang_dist(lc, bc, lv, bv);
            if a > best {
              best = a;
            }
          }
        }
      }
      v.push(best);
    }
    v
  });
  if (depth as usize) < tab.len() {
    tab[depth as usize]
  } else {
    1.07 / nside(depth) as f64
  }
}

#[inline]
fn chord2(a: &[f64; 3], b: &[f64; 3]) -> f64 {
  let (x, y, z) = (a[0] - b[0], a[1] - b[1], a[2] - b[2]);
  x * x + y * y + z * z
}
#[inline]
fn chord2_of_angle(a: f64) -> f64 {
  if a <= 0.0 {
    return 0.0;
  }
  let s = 2.0 * (0.5 * a.min(PI)).sin();
  s * s
}

// ---------------------------------------------------------------------------------------------
// queries
// ---------------------------------------------------------------------------------------------

#[derive(Clone, Copy, Debug)]
pub struct ConeQ {
  /// 0 = cone_coverage_approx, 1 = cone_coverage_approx_flat, 2 = cone_coverage_approx_custom
  pub variant: u8,
  pub depth: u8,
  pub delta: u8,
  pub lon: f64,
  pub lat: f64,
  pub r: f64,
}

impl ConeQ {
  pub fn api(&self) -> &'static str {
    match self.variant {
      0 => "nested::cone_coverage_approx",
      1 => "nested::cone_coverage_approx_flat",
      _ => "nested::cone_coverage_approx_custom",
    }
  }
  pub fn to_json(&self) -> Value {
    json!({"api": self.api(), "variant": self.variant, "depth": self.depth, "delta_depth": self.delta,
      "lon": f64_json(self.lon), "lat": f64_json(self.lat), "radius": f64_json(self.r)})
  }
  pub fn from_json(v: &Value) -> ConeQ {
    ConeQ {
      variant: v["variant"].as_u64().unwrap() as u8,
      depth: v["depth"].as_u64().unwrap() as u8,
      delta: v["delta_depth"].as_u64().unwrap() as u8,
      lon: f64_from_json(&v["lon"]),
      lat: f64_from_json(&v["lat"]),
      r: f64_from_json(&v["radius"]),
    }
  }
  /// Run the query on the subject; the flat variant is returned as partial cells of the depth.
  pub fn run(&self) -> Result<Bm, String> {
    let q = *self;
    journal("nested::cone_coverage_approx", || self.to_json());
    guarded(move || match q.variant {
      0 => Bm::from_impl(&nested::cone_coverage_approx(q.depth, q.lon, q.lat, q.r)),
      1 => {
        let flat = nested::cone_coverage_approx_flat(q.depth, q.lon, q.lat, q.r);
        Bm::new(q.depth, flat.iter().map(|&h| (q.depth, h, false)).collect())
      }
      _ => Bm::from_impl(&nested::cone_coverage_approx_custom(q.depth, q.delta, q.lon, q.lat, q.r)),
    })
  }
}

fn touch_margin(r: f64) -> f64 {
  if r >= 1e-6 { 1e-9 } else { 1e-3 * r }
}

/// Is the R2 3x3 block (at the reference start depth of the radius) of the cone centre disjoint
/// from the cell (depth, h)?  Used by the known-finding key `start-block-too-small-in-polar-cap`.
fn outside_start_block(lon: f64, lat: f64, r: f64, depth: u8, h: u64) -> Option<bool> {
  let k = ref_start_depth(r)?;
  let (x, y) = ref_proj(lon, lat);
  // cells of depth k containing the centre (several on a border)
  let mut block: Vec<u64> = vec![];
  if k <= 12 {
    // locate through the lattice: the centre cell is found among the cells around the rounded lattice position
    let n = nside(k) as f64;
    let (imgs, ni) = images(x, y);
    for &(xi, yi) in &imgs[..ni] {
      let cx = (xi * n).round() as i64;
      let cy = (yi * n).round() as i64;
      for dx in -2..=2i64 {
        for dy in -2..=2i64 {
          if let Some(c) = cell_from_center(k, cx + dx, cy + dy) {
            if outside(k, c, x, y) <= TOL_PLANE && !block.contains(&c) {
              block.push(c);
            }
          }
        }
      }
    }
  } else {
    return None;
  }
  // A cell containing the centre whose 3x3 block does not intersect (depth, h)?  (The subject
  // starts from ONE of the cells containing the centre; on a border any of them is legitimate.)
  let intersects = |b: u64| if depth >= k { h >> (2 * (depth - k) as u32) == b } else { b >> (2 * (k - depth) as u32) == h };
  for &c0 in &block {
    let mut hit = intersects(c0);
    for (_, nb) in ref_neighbours(k, c0) {
      hit = hit || intersects(nb);
    }
    if !hit {
      return Some(true);
    }
  }
  Some(false)
}

pub const KF1: &str = "start-block-too-small-in-polar-cap";

/// KF-1 predicate: a function of the query and of the missed cell only.
/// Lower end of the radius band of KF-1, as a fraction of the tabulated limit.  The narrowest cells
/// of a depth (located by exhaustive search in C16, depths 0..=8, and by the python derivation
/// recorded in known_findings.json up to depth 10) have an edge-to-opposite-edge distance of
/// 0.9997 (depth 1), 0.990 (3), 0.979 (5), 0.9748 (7), 0.9733 (8), 0.9716 (10) x the table entry,
/// converging to ~0.9704: the table is optimistic by up to 3 %, not 1 % as first recorded.
pub const KF1_BAND_LO: f64 = 0.97;

pub fn kf1_matches(lon: f64, lat: f64, r: f64, depth: u8, missed: u64) -> bool {
  let t = thresholds();
  let k = match ref_start_depth(r) {
    Some(k) => k as usize,
    None => return false,
  };
  let ratio = r / t[k];
  if std::env::var("HPXMC_DEBUG").is_ok() {
    eprintln!("kf1: k={} ratio={} lat+r={} trans={} outside_block={:?} missed={}/{}", k, ratio, lat.abs() + r, transition_lat(), outside_start_block(lon, lat, r, depth, missed), depth, missed);
  }
  if !(ratio >= KF1_BAND_LO && ratio < 1.0) {
    return false;
  }
  if !(lat.abs() + r >= transition_lat()) {
    return false;
  }
  outside_start_block(lon, lat, r, depth, missed) == Some(true)
}

pub enum Verdict {
  Ok,
  Known(&'static str, Value),
  Bad(Viol),
}

/// Per-cell coverage bitmap of a result at the query depth.
fn covered_bitmap(map: &RangeMap, depth: u8) -> Vec<bool> {
  let mut v = vec![false; n_hash(depth) as usize];
  let m = if map.depth == depth { map.clone() } else { return v };
  for &(s, e, _) in &m.ranges {
    for h in s..e {
      v[h as usize] = true;
    }
  }
  v
}

/// C05 on a shallow query (all cells of the depth are candidates).
pub fn check_c05(q: &ConeQ, listed_kf1: bool, part: &mut Part) -> Verdict {
  let out = match q.run() {
    Ok(o) => o,
    Err(m) => return Verdict::Bad(Viol { api: q.api().into(), kind: "panic".into(), case: q.to_json(), expected: "a coverage".into(), actual: format!("panic: {}", m) }),
  };
  part.outcome(hash64(&[out.entries.len() as u64, out.entries.iter().fold(q.depth as u64, |a, e| a.wrapping_mul(1_000_003) ^ (e.1 << 6) ^ ((e.0 as u64) << 1) ^ e.2 as u64)]));
  let map = match out.to_map() {
    Ok(m) => m,
    Err(e) => return Verdict::Bad(Viol { api: q.api().into(), kind: "malformed-result".into(), case: q.to_json(), expected: "a valid BMOC".into(), actual: format!("{} ({})", out.describe(), e) }),
  };
  if out.depth_max != q.depth {
    return Verdict::Bad(Viol { api: q.api().into(), kind: "wrong-depth-max".into(), case: q.to_json(), expected: format!("depth_max {}", q.depth), actual: out.describe() });
  }
  let cov = covered_bitmap(&map, q.depth);
  let tab = witness_tab(q.depth);
  let c = unit_vec(q.lon, q.lat);
  let m = touch_margin(q.r);
  let thr_touch = chord2_of_angle(q.r - m);
  let thr_cull = chord2_of_angle((q.r + max_c2v(q.depth) + 1e-9).min(PI));
  let cull_all = q.r + max_c2v(q.depth) + 1e-9 >= PI;
  let (px, py) = ref_proj(q.lon, q.lat);
  let mut first_miss: Option<(u64, String)> = None;
  let mut n_miss = 0u64;
  let mut all_known = true;
  for h in 0..n_hash(q.depth) {
    if cov[h as usize] {
      continue;
    }
    if !cull_all && chord2(&tab.centers[h as usize], &c) > thr_cull {
      continue;
    }
    // touched?
    let mut why: Option<String> = None;
    if q.r > 0.0 && outside(q.depth, h, px, py) <= -1e-12 {
      why = Some("the cone centre lies strictly inside the cell".into());
    } else {
      let w = &tab.wit[(h as usize) * WK * WK..(h as usize + 1) * WK * WK];
      for (k, p) in w.iter().enumerate() {
        if chord2(p, &c) <= thr_touch {
          let (l, b) = lonlat_of(p);
          why = Some(format!("its point #{} ({:e}, {:e}) is at {:e} rad from the centre, radius {:e}", k, l, b, ang_dist_vec(p, &c), q.r));
          break;
        }
      }
    }
    if let Some(w) = why {
      part.validated += 1;
      n_miss += 1;
      let known = listed_kf1 && kf1_matches(q.lon, q.lat, q.r, q.depth, h);
      if !known {
        all_known = false;
        if first_miss.is_none() || first_miss.as_ref().map(|f| f.1.starts_with("KNOWN")).unwrap_or(false) {
          first_miss = Some((h, w));
        }
      } else if first_miss.is_none() {
        first_miss = Some((h, format!("KNOWN {}", w)));
      }
    }
  }
  match first_miss {
    None => Verdict::Ok,
    Some((h, w)) => {
      let mut case = q.to_json();
      case["missed_cell"] = json!(h.to_string());
      if all_known {
        Verdict::Known(KF1, case)
      } else {
        Verdict::Bad(Viol {
          api: q.api().into(),
          kind: "miss".into(),
          case,
          expected: format!("cell {}/{} (or an ancestor) in the coverage: {}", q.depth, h, w),
          actual: format!("{} cell(s) touched by the cone are missing; result = {}", n_miss, out.describe()),
        })
      }
    }
  }
}

/// C06 on a shallow query.
pub fn check_c06(q: &ConeQ, part: &mut Part) -> Option<Viol> {
  let mk = |kind: &str, expected: String, actual: String| Some(Viol { api: q.api().into(), kind: kind.into(), case: q.to_json(), expected, actual });
  let out = match q.run() {
    Ok(o) => o,
    Err(m) => return mk("panic", "a coverage".into(), format!("panic: {}", m)),
  };
  part.outcome(hash64(&[out.entries.len() as u64, out.entries.iter().fold(q.depth as u64, |a, e| a.wrapping_mul(1_000_003) ^ (e.1 << 6) ^ ((e.0 as u64) << 1) ^ e.2 as u64)]));
  if let Err(e) = out.to_map() {
    return mk("malformed-result", "a valid BMOC".into(), format!("{} ({})", out.describe(), e));
  }
  if q.r >= PI {
    let ok = if q.variant == 1 {
      out.entries.len() as u64 == n_hash(q.depth)
    } else {
      out.entries == (0..12).map(|b| (0u8, b as u64, true)).collect::<Vec<_>>()
    };
    part.validated += 1;
    if !ok {
      return mk("not-whole-sky", "the whole sky as 12 full base cells".into(), out.describe());
    }
    return None;
  }
  let c = unit_vec(q.lon, q.lat);
  for &(d, h, full) in &out.entries {
    part.validated += 1;
    // tightness
    let limit = q.r + 2.0 * max_c2v(d) + 1e-9;
    if limit < PI {
      let (xc, yc) = center_plane(d, h);
      let (l, b) = ref_unproj(xc, yc);
      let a = ang_dist_vec(&unit_vec(l, b), &c);
      if a > limit {
        return mk("not-tight", format!("every reported cell centre within radius + 2 * {:e} = {:e} of the cone centre", max_c2v(d), limit), format!("cell {}/{} has its centre at {:e}", d, h, a));
      }
    }
    // truthful full flag
    if full && q.variant != 1 {
      let thr = chord2_of_angle(q.r + 1e-9);
      if q.r + 1e-9 < PI {
        let wit: Vec<[f64; 3]> = if out.entries.len() > 100_000 {
          // huge outputs: vertices, edge mid-points and centre only
          cell_witnesses(d, h, 3).iter().map(|&(l, b)| unit_vec(l, b)).collect()
        } else if (d as usize) < 6 {
          let t = witness_tab(d);
          t.wit[(h as usize) * WK * WK..(h as usize + 1) * WK * WK].to_vec()
        } else {
          cell_witnesses(d, h, WK).iter().map(|&(l, b)| unit_vec(l, b)).collect()
        };
        for (k, p) in wit.iter().enumerate() {
          if chord2(p, &c) > thr {
            let (l, b) = lonlat_of(p);
            return mk("full-flag-untrue", format!("cell {}/{} flagged full entirely inside the cone of radius {:e}", d, h, q.r), format!("its point #{} ({:e}, {:e}) is at {:e} rad from the centre", k, l, b, ang_dist_vec(p, &c)));
          }
        }
      }
    }
  }
  if q.variant != 1 {
    if let Some(e) = RangeMap::has_four_full_siblings(&out) {
      return mk("not-packed", "no four full sibling cells".into(), format!("{} has the four full siblings starting at {}/{}", out.describe(), e.0, e.1));
    }
  }
  None
}

/// Deep tier, C05: witnesses are points of the cone; the candidate cell is the subject's own
/// hash of the witness (validated by C01); it must be covered.
/// Vertex-grazing cone: the cone of radius r whose rim passes 1.2e-3 of the centre-to-vertex
/// distance beyond the vertex k of the cell (d, h), coming along the line centre -> vertex (the
/// cell pokes into the cone by its very tip only: its centre is at r + 0.9988 c2v from the cone
/// centre, so the cell is kept only if the cell-size bound used at that depth really is >= c2v).
/// The witness is the point of the diagonal 6e-4 c2v inside the vertex.
pub fn check_vertex_grazing(d: u8, h: u64, k: usize, r: f64, part: &mut Part) -> Option<Viol> {
  let inv = 1.0 / nside(d) as f64;
  let (xc, yc) = center_plane(d, h);
  let (xv, yv) = match k {
    0 => (xc, yc - inv),
    1 => (xc + inv, yc),
    2 => (xc, yc + inv),
    _ => (xc - inv, yc),
  };
  if yv.abs() > 2.0 - 1e-9 {
    return None; // a pole: every meridian ends there
  }
  let (lc, bc) = ref_unproj(xc, yc);
  let (lv, bv) = ref_unproj(xv, yv);
  let (c, v) = (unit_vec(lc, bc), unit_vec(lv, bv));
  let c2v = ang_dist_vec(&c, &v);
  let dot = v[0] * c[0] + v[1] * c[1] + v[2] * c[2];
  let mut t = [v[0] * dot - c[0], v[1] * dot - c[1], v[2] * dot - c[2]];
  let nt = (t[0] * t[0] + t[1] * t[1] + t[2] * t[2]).sqrt();
  if !(nt > 1e-12) || r <= 4.0 * c2v {
    return None;
  }
  for x in t.iter_mut() {
    *x /= nt;
  }
  let along = |ang: f64| -> [f64; 3] { [v[0] * ang.cos() + t[0] * ang.sin(), v[1] * ang.cos() + t[1] * ang.sin(), v[2] * ang.cos() + t[2] * ang.sin()] };
  let lonlat = |p: &[f64; 3]| -> (f64, f64) { (p[1].atan2(p[0]).rem_euclid(TWO_PI), p[2].atan2((p[0] * p[0] + p[1] * p[1]).sqrt())) };
  let p = along(r - 1.2e-3 * c2v);
  let w = along(-6e-4 * c2v);
  let (pl, pb) = lonlat(&p);
  let (wl, wb) = lonlat(&w);
  let q = ConeQ { variant: 0, depth: d, delta: 0, lon: pl, lat: pb, r };
  // the witness must be robustly inside the cone and inside the cell (reference computations)
  let pu = unit_vec(pl, pb);
  if !(ang_dist_vec(&pu, &unit_vec(wl, wb)) < r - 2e-4 * c2v) {
    return None;
  }
  let (wx, wy) = ref_proj(wl, wb);
  if !(outside(d, h, wx, wy) < -1e-4 * inv) {
    return None;
  }
  part.stratum("vertex-grazing-cones", 1, 1);
  let out = match q.run() {
    Ok(o) => o,
    Err(m) => return Some(Viol { api: q.api().into(), kind: "panic".into(), case: q.to_json(), expected: "a coverage".into(), actual: format!("panic: {}", m) }),
  };
  part.validated += 1;
  let map = match out.to_map() {
    Ok(m) => m,
    Err(e) => return Some(Viol { api: q.api().into(), kind: "malformed-result".into(), case: q.to_json(), expected: "a valid BMOC".into(), actual: format!("{} entries ({})", out.entries.len(), e) }),
  };
  let rs = &map.ranges;
  let idx = rs.partition_point(|x| x.1 <= h);
  if !(idx < rs.len() && rs[idx].0 <= h) {
    let mut case = q.to_json();
    case["grazing"] = json!({"cell": h.to_string(), "vertex": k});
    return Some(Viol { api: q.api().into(), kind: "miss".into(), case, expected: format!("cell {}/{}: its point ({:e}, {:e}), 6e-4 of the centre-to-vertex distance inside its vertex #{}, is {:e} rad inside the cone", d, h, wl, wb, k, r - ang_dist_vec(&pu, &unit_vec(wl, wb))), actual: format!("{} entries, the cell is not covered", out.entries.len()) });
  }
  None
}

pub fn check_c05_deep(q: &ConeQ, listed_kf1: bool, part: &mut Part) -> Verdict {
  check_c05_deep_nb(q, listed_kf1, 0, part)
}

/// `min_bearings`: lower bound on the number of bearings of the rim witnesses.
pub fn check_c05_deep_nb(q: &ConeQ, listed_kf1: bool, min_bearings: usize, part: &mut Part) -> Verdict {
  let out = match q.run() {
    Ok(o) => o,
    Err(m) => return Verdict::Bad(Viol { api: q.api().into(), kind: "panic".into(), case: q.to_json(), expected: "a coverage".into(), actual: format!("panic: {}", m) }),
  };
  part.outcome(hash64(&[out.entries.len() as u64, q.depth as u64, out.entries.first().map(|e| e.1).unwrap_or(0)]));
  let map = match out.to_map() {
    Ok(m) => m,
    Err(e) => return Verdict::Bad(Viol { api: q.api().into(), kind: "malformed-result".into(), case: q.to_json(), expected: "a valid BMOC".into(), actual: format!("{} ({})", out.describe(), e) }),
  };
  let covered = |h: u64| -> bool {
    // binary search in the ranges
    let rs = &map.ranges;
    let idx = rs.partition_point(|r| r.1 <= h);
    idx < rs.len() && rs[idx].0 <= h
  };
  let mut pts: Vec<(f64, f64)> = vec![(q.lon, q.lat)];
  // cone many cells across: more bearings, and points half a cell / two cells inside the rim
  let cell = PI / 3.0f64.sqrt() / (1u64 << q.depth) as f64;
  let large = q.r > 40.0 * cell;
  let nb = (if large { 96 } else { 16 }).max(min_bearings);
  for k in 0..nb {
    let bearing = k as f64 * (TWO_PI / nb as f64) + 0.05;
    // (the last two factors put a witness just inside the margin below which a point counts as
    // robustly inside the cone: 1e-9 rad, or 1e-3 r for r < 1e-6)
    let f_rim = 1.0 - (2.0 * touch_margin(q.r) / q.r).max(2e-6);
    for f in [0.25, 0.5, 0.75, 0.9, 0.97, f_rim, 1.0 - 1e-6] {
      pts.push(destination(q.lon, q.lat, bearing, q.r * f));
    }
    if large {
      pts.push(destination(q.lon, q.lat, bearing, q.r - 0.5 * cell));
      pts.push(destination(q.lon, q.lat, bearing, q.r - 2.0 * cell));
    }
  }
  let mut known_case: Option<Value> = None;
  for (l, b) in pts {
    let d = q.depth;
    let h = match guarded(move || nested::hash(d, l, b)) {
      Ok(h) => h,
      Err(_) => continue,
    };
    part.validated += 1;
    if !covered(h) {
      // only demand the cell if the witness is robustly inside the cone and inside the cell
      let a = ang_dist(q.lon, q.lat, l, b);
      let (x, y) = ref_proj(l, b);
      if a <= q.r - touch_margin(q.r) && outside(d, h, x, y) <= TOL_PLANE {
        let mut case = q.to_json();
        case["missed_cell"] = json!(h.to_string());
        if listed_kf1 && kf1_matches(q.lon, q.lat, q.r, d, h) {
          known_case = Some(case);
          continue;
        }
        return Verdict::Bad(Viol {
          api: q.api().into(),
          kind: "miss".into(),
          case,
          expected: format!("cell {}/{} (or an ancestor) in the coverage: it contains ({:e}, {:e}), at {:e} rad from the centre (radius {:e})", d, h, l, b, a, q.r),
          actual: format!("missing; result = {}", out.describe()),
        });
      }
    }
  }
  match known_case {
    Some(c) => Verdict::Known(KF1, c),
    None => Verdict::Ok,
  }
}

// ---------------------------------------------------------------------------------------------
// alphabets
// ---------------------------------------------------------------------------------------------

pub fn radii_for(depth: u8, quick: bool) -> Vec<f64> {
  let t = thresholds();
  let mut v: Vec<f64> = vec![1e-9, 1e-7, 1e-5, 1e-3, 0.01, 0.05, 0.2, 0.5, 1.0, 1.5, HALF_PI, 2.0, 2.3, 2.8, 3.1, PI - 1e-9, PI, 3.5];
  let fs: Vec<f64> = if quick {
    vec![0.7, 0.9, 0.999, 1.0 - f64::EPSILON, 1.0, 1.0 + f64::EPSILON, 1.05]
  } else {
    vec![0.5, 0.7, 0.8, 0.9, 0.95, 0.999, 1.0 - f64::EPSILON, 1.0, 1.0 + f64::EPSILON, 1.001, 1.05]
  };
  for k in 0..=((depth as usize + 3).min(29)) {
    for &f in &fs {
      v.push(t[k] * f);
    }
  }
  v
}

pub fn centres(quick: bool) -> Vec<(f64, f64)> {
  let mut v: Vec<(f64, f64)> = vec![];
  for (x, y) in plane_nodes(if quick { 2 } else { 3 }) {
    v.push(ref_unproj(x, y));
  }
  v.extend(generic_points());
  // poles approached from odd longitudes, turned longitudes (exercise the reduction path)
  v.push((1.234, HALF_PI));
  v.push((4.0, -HALF_PI));
  v.push((TWO_PI, 0.3));
  v.push((-PI, -0.5));
  v.push((TWO_PI + 0.7, 1.0));
  v.push((-0.3, 0.1));
  v.push((0.0, 0.948)); // polar-cap seam
  v.push((PI / 4.0, 1.37));
  v
}

/// Centres placed relative to the radius: at a fraction of the radius from the critical
/// parallels (transition latitudes, square-cell latitudes, equator, poles) and close to the
/// critical meridians (base-cell borders and centres).
pub fn relative_centres(r: f64, quick: bool) -> Vec<(f64, f64)> {
  let tl = transition_lat();
  let crit_lat = [tl, -tl, 0.39934019947897773, -0.39934019947897773, 0.0, HALF_PI, -HALF_PI];
  let fs: &[f64] = if quick { &[0.45, 0.9] } else { &[0.2, 0.45, 0.75, 0.9, 1.05] };
  let lons: Vec<f64> = if quick { vec![0.003, PI / 4.0 + 0.4 * r, 3.0 * PI / 2.0 - 0.7 * r] } else { vec![0.003, 0.3 * r, PI / 4.0 + 0.4 * r, PI / 2.0 + 0.011, 3.0 * PI / 2.0 - 0.7 * r, 5.6] };
  let mut v = vec![];
  for &l in &crit_lat {
    for &f in fs {
      for s in [-1.0, 1.0] {
        let lat = l + s * f * r;
        if lat.abs() <= HALF_PI {
          for &lon in &lons {
            v.push((lon.rem_euclid(TWO_PI), lat));
          }
        }
      }
    }
  }
  v
}

pub fn run(ctx: &Ctx, c06: bool) -> i32 {
  let quick = ctx.quick();
  let id = if c06 { "C06" } else { "C05" };
  let listed_kf1 = ctx.findings.listed(id, KF1);
  let dmax: u8 = if quick { 4 } else { 6 };
  let deltas: Vec<u8> = if quick { vec![1, 2] } else { vec![1, 2, 3] };
  let cs = centres(quick);
  // force the tables
  let _ = thresholds();
  for d in 0..=dmax.max(5) {
    let _ = witness_tab(d);
  }
  let _ = max_c2v(0);
  // shallow jobs: (depth, centre index)
  let mut jobs: Vec<(u8, usize, bool)> = vec![];
  for d in 0..=dmax {
    for ci in 0..cs.len() {
      jobs.push((d, ci, false));
    }
  }
  let deep_depths: Vec<u8> = vec![8, 12, 16, 20, 24, 27, 29];
  for &d in &deep_depths {
    for ci in 0..cs.len() {
      jobs.push((d, ci, true));
    }
  }
  // radius-relative centres: one job per (depth, radius index), marked by ci = usize::MAX - index
  let all_depths: Vec<u8> = (0..=dmax).chain(deep_depths.iter().cloned()).collect();
  for &d in &all_depths {
    let nr = if d <= dmax { radii_for(d, quick).len() } else { 25 };
    for ri in 0..nr {
      jobs.push((d, usize::MAX - ri, d > dmax));
    }
  }
  // deep-large stratum: cones hundreds to thousands of cells across at mid / large depth
  // (outputs of 10^4 .. 10^5 cells), generic mid-latitude centres
  let t_all = thresholds();
  let mut large_q: Vec<ConeQ> = vec![];
  {
    let specs: Vec<(u8, f64)> = if quick { vec![(13, 0.9 * t_all[6]), (20, 3.5e-3)] } else { vec![(12, 0.9 * t_all[6]), (13, 0.9 * t_all[6]), (16, 0.9 * t_all[8]), (18, 2.0e-3), (20, 3.5e-3), (22, 3.0e-3)] };
    for (d, r) in specs {
      for &(lon, lat) in &[(1.0, 0.62), (4.0, -0.66), (2.5, 0.35), (0.3, 1.0)] {
        large_q.push(ConeQ { variant: 0, depth: d, delta: 0, lon, lat, r });
        large_q.push(ConeQ { variant: 2, depth: d - 1, delta: 1, lon, lat, r });
      }
    }
  }
  // deep-huge stratum: radius / cell size > 1e5 (17+ levels below the start depth, outputs of
  // ~1e6 cells)
  {
    // (the second quick entry is 19 levels below its start depth: ~8e6 cells)
    let specs: Vec<(u8, f64, f64, f64)> = if quick { vec![(17, 0.83, 1.0, 0.3), (25, 0.0105, 1.0, 0.3)] } else { vec![(17, 0.83, 1.0, 0.3), (18, 0.45, 4.0, -0.66), (20, 0.11, 0.3, 1.0), (22, 0.0175, 2.5, 0.35), (25, 2.2e-3, 1.0, 0.62), (28, 3.0e-4, 5.5, -0.2), (25, 0.0105, 1.0, 0.3), (29, 1.7e-4, 4.0, -0.66)] };
    for (d, r, lon, lat) in specs {
      large_q.push(ConeQ { variant: 0, depth: d, delta: 0, lon, lat, r });
      if !quick {
        large_q.push(ConeQ { variant: 2, depth: d - 1, delta: 1, lon, lat, r });
      }
    }
  }
  let n_regular = jobs.len();
  for k in 0..large_q.len() {
    jobs.push((large_q[k].depth, usize::MAX / 2 + k, true));
  }
  let _ = n_regular;
  let total = par_jobs(jobs.len(), |j| {
    let (d, ci, deep) = jobs[j];
    let mut part = Part::new();
    if ci >= usize::MAX / 2 && ci < usize::MAX / 2 + 100_000 {
      let q = large_q[ci - usize::MAX / 2];
      part.stratum(if q.r * (1u64 << q.depth) as f64 > 5.0e4 { "deep-huge" } else { "deep-large" }, 1, 1);
      if c06 {
        if let Some(v) = check_c06(&q, &mut part) {
          part.viol(v);
        }
      } else {
        match check_c05_deep(&q, listed_kf1, &mut part) {
          Verdict::Ok => {}
          Verdict::Known(k, ex) => part.known(k, ex),
          Verdict::Bad(v) => part.viol(v),
        }
      }
      return part;
    }
    if ctx.over_budget() {
      part.caps.push(format!("wall budget {}s reached in {} enumeration", ctx.budget_s, id));
      return part;
    }
    let t = thresholds();
    if ci > usize::MAX - 1000 {
      // radius-relative centres
      let ri = usize::MAX - ci;
      let r = if !deep {
        radii_for(d, quick)[ri]
      } else {
        let ks = [d as i32 - 4, d as i32 - 1, d as i32, d as i32 + 1, d as i32 + 2];
        let k = ks[ri / 5];
        if !(0..30).contains(&k) {
          return part;
        }
        t[k as usize] * [0.7, 0.9, 0.999, 1.0, 1.05][ri % 5]
      };
      if !(r < 1.2) {
        return part;
      }
      for (lon, lat) in relative_centres(r, quick) {
        for (variant, delta) in [(0u8, 0u8), (2, 1)] {
          if d + delta > 29 || (!deep && d + delta > 7) {
            continue;
          }
          let q = ConeQ { variant, depth: d, delta, lon, lat, r };
          part.stratum(if deep { "deep-relative-centres" } else { "shallow-relative-centres" }, 1, 1);
          if c06 {
            if let Some(v) = check_c06(&q, &mut part) {
              part.viol(v);
            }
          } else {
            let verdict = if deep { check_c05_deep(&q, listed_kf1, &mut part) } else { check_c05(&q, listed_kf1, &mut part) };
            match verdict {
              Verdict::Ok => {}
              Verdict::Known(k, ex) => part.known(k, ex),
              Verdict::Bad(v) => part.viol(v),
            }
          }
        }
      }
      return part;
    }
    let (lon, lat) = cs[ci];
    if !deep {
      for r in radii_for(d, quick) {
        let mut variants: Vec<(u8, u8)> = vec![(0, 0), (1, 0)];
        for &dl in &deltas {
          if d + dl <= 7 {
            variants.push((2, dl));
          }
        }
        for (variant, delta) in variants {
          let q = ConeQ { variant, depth: d, delta, lon, lat, r };
          part.stratum(if variant == 2 { "shallow-custom" } else if variant == 1 { "shallow-flat" } else { "shallow-approx" }, 1, 1);
          if c06 {
            if let Some(v) = check_c06(&q, &mut part) {
              part.viol(v);
            }
          } else {
            match check_c05(&q, listed_kf1, &mut part) {
              Verdict::Ok => {}
              Verdict::Known(k, ex) => part.known(k, ex),
              Verdict::Bad(v) => part.viol(v),
            }
          }
          if j % 97 == (ctx.seed.rem_euclid(97)) as usize && r == 0.2 && variant == 0 {
            part.sample(q.to_json());
          }
        }
      }
    } else {
      // deep tier: radii around the thresholds k in {d-1, d, d+1, d+2}, + a cone of ~16 cells across
      let mut rs: Vec<f64> = vec![];
      let mut ks = vec![d as i32 - 5, d as i32 - 4, d as i32 - 1, d as i32, d as i32 + 1, d as i32 + 2];
      if !quick {
        ks.insert(0, d as i32 - 7);
      }
      for k in ks {
        if (0..30).contains(&k) {
          for f in [0.7, 0.9, 0.999, 1.0, 1.05] {
            rs.push(t[k as usize] * f);
          }
        }
      }
      for r in rs {
        for (variant, delta) in [(0u8, 0u8), (2, 1)] {
          if d + delta > 29 {
            continue;
          }
          let q = ConeQ { variant, depth: d, delta, lon, lat, r };
          part.stratum("deep", 1, 1);
          if c06 {
            if let Some(v) = check_c06(&q, &mut part) {
              part.viol(v);
            }
          } else {
            match check_c05_deep(&q, listed_kf1, &mut part) {
              Verdict::Ok => {}
              Verdict::Known(k, ex) => part.known(k, ex),
              Verdict::Bad(v) => part.viol(v),
            }
          }
        }
      }
    }
    part
  });
  // deep start blocks: for EVERY start depth k = 5..=28, cones of radius 0.9 / 0.999 x limit[k]
  // centred on the characteristic points of polar-cap and other class cells of depth k, covered at
  // depth k + 1: a cone leaving the 3x3 block of depth-k cells loses the cells outside it
  let mut total = total;
  if !c06 {
    let ks: Vec<u8> = (5u8..=28).collect();
    let blocks = par_jobs(ks.len(), |j| {
      let k = ks[j];
      let mut part = Part::new();
      let t = thresholds();
      let mut cells: Vec<u64> = class_cells(k).into_iter().step_by(if quick { 31 } else { 7 }).collect();
      // the cells next to the polar-cap seams, from half way to the pole up to the pole: the
      // narrowest cells of a depth are there (KF-1 measurements: at 0.87 of the way at depth 10)
      let n = nside(k) as u32;
      for frac in [0.5, 0.75, 0.85, 0.9, 0.95, 0.98] {
        let j = ((frac * n as f64) as u32).min(n - 1);
        for a in [n - 1, n.saturating_sub(2)] {
          cells.push(encode(k, 0, a, j));
          cells.push(encode(k, 1, j, a));
          cells.push(encode(k, 8, n - 1 - a, n - 1 - j));
          cells.push(encode(k, 10, n - 1 - j, n - 1 - a));
        }
      }
      cells.sort();
      cells.dedup();
      for &h in cells.iter() {
        for (px, py) in cell_points_plane(k, h).iter() {
          let (lon, lat) = ref_unproj(*px, *py);
          for f in [0.9, 0.999] {
            let q = ConeQ { variant: 0, depth: k + 1, delta: 0, lon, lat, r: t[k as usize] * f };
            part.stratum("deep-start-blocks", 1, 1);
            match check_c05_deep_nb(&q, listed_kf1, 96, &mut part) {
              Verdict::Ok => {}
              Verdict::Known(kf, ex) => part.known(kf, ex),
              Verdict::Bad(v) => part.viol(v),
            }
          }
        }
      }
      part
    });
    total.merge(blocks);
  }
  // radii taken from the float literals of the current sources (and 0.999 / 1.001 of them)
  {
    let (_, lit_floats) = source_literals();
    let radii: Vec<f64> = lit_floats.iter().copied().filter(|&r| r > 1e-9 && r < PI).flat_map(|r| [r, r * 0.999, r * 1.001]).collect();
    let lit = par_jobs(radii.len(), |k| {
      let r = radii[k];
      let mut part = Part::new();
      let kstart = ref_start_depth(r).unwrap_or(0);
      for &(lon, lat) in &[(1.0, 0.62), (0.3, 1.0), (4.0, -0.66), (0.0, 0.948)] {
        for d in [3u8.min(kstart + 2), (kstart + 2).min(29)] {
          let q = ConeQ { variant: 0, depth: d, delta: 0, lon, lat, r };
          part.stratum("source-literal-radii", 1, 1);
          if c06 {
            if d <= 12 || r < 1e-3 {
              if let Some(v) = check_c06(&q, &mut part) {
                part.viol(v);
              }
            }
          } else {
            let verdict = if d <= 5 { check_c05(&q, listed_kf1, &mut part) } else { check_c05_deep_nb(&q, listed_kf1, 48, &mut part) };
            match verdict {
              Verdict::Ok => {}
              Verdict::Known(kf, ex) => part.known(kf, ex),
              Verdict::Bad(v) => part.viol(v),
            }
          }
        }
      }
      part
    });
    total.merge(lit);
  }
  // centres just outside an edge of the NARROWEST cells of the start depth k (exhaustive search,
  // c16::narrowest_cells), radii in and below the band of KF-1, coverage depth k and k + 1
  {
    let kmax: u8 = if quick { 4 } else { 6 };
    let njobs = kmax as usize + 1;
    let narrow = par_jobs(njobs, |k| {
      let k = k as u8;
      let mut part = Part::new();
      let t = thresholds();
      for (h, pair, _) in crate::c16::narrowest_cells(k, 2) {
        for edge in [2 * pair, 2 * pair + 1] {
          for (lon, lat) in crate::c16::edge_points(k, h, edge, 8, 1e-3) {
            for f in [0.95, 0.965, 0.975, 0.985, 0.995, 0.999999] {
              for d in [k, k + 1] {
                if d > dmax.max(5) {
                  continue;
                }
                let q = ConeQ { variant: 0, depth: d, delta: 0, lon, lat, r: t[k as usize] * f };
                part.stratum("narrowest-cell-centres", 1, 1);
                if c06 {
                  if let Some(v) = check_c06(&q, &mut part) {
                    part.viol(v);
                  }
                } else {
                  match check_c05(&q, listed_kf1, &mut part) {
                    Verdict::Ok => {}
                    Verdict::Known(kf, ex) => part.known(kf, ex),
                    Verdict::Bad(v) => part.viol(v),
                  }
                }
              }
            }
          }
        }
      }
      part
    });
    total.merge(narrow);
  }
  // band cones: cones lying ENTIRELY inside one latitude band of the cell-size helpers (between
  // two critical parallels), the near edge at 2 %..60 % of the radius from the parallel, on either
  // side of each parallel; radii at 0.55 / 0.75 / 0.95 of every start-depth threshold k = 1..5,
  // covered 1 and 2 levels below the start depth (the levels where full flags are decided from the
  // per-depth bounds of that band), 12 longitudes across a base cell
  {
    let tl = transition_lat();
    let crit_lat = [tl, -tl, 0.39934019947897773, -0.39934019947897773, 0.0, HALF_PI, -HALF_PI];
    let kmax: usize = if quick { 4 } else { 6 };
    let band = par_jobs(kmax * crit_lat.len(), |job| {
      let (k, l0) = (1 + job / crit_lat.len(), crit_lat[job % crit_lat.len()]);
      let mut part = Part::new();
      if ctx.over_budget() {
        part.caps.push(format!("wall budget {}s reached in the band cones", ctx.budget_s));
        return part;
      }
      let t = thresholds();
      for f in [0.55, 0.75, 0.95] {
        let r = t[k] * f;
        for g in [0.02, 0.1, 0.25, 0.6] {
          for s in [-1.0, 1.0] {
            let lat = l0 + s * (1.0 + g) * r;
            if lat.abs() + r >= HALF_PI && l0.abs() < HALF_PI || lat.abs() > HALF_PI {
              continue;
            }
            for kl in 0..12 {
              let lon = 3.0 * PI / 2.0 + 0.011 + kl as f64 * (HALF_PI / 12.0);
              for dd in [1u8, 2] {
                let d = k as u8 + dd;
                if d > 6 {
                  continue;
                }
                let q = ConeQ { variant: 0, depth: d, delta: 0, lon: lon.rem_euclid(TWO_PI), lat, r };
                part.stratum("band-cones", 1, 1);
                if c06 {
                  if let Some(v) = check_c06(&q, &mut part) {
                    part.viol(v);
                  }
                } else {
                  match check_c05(&q, listed_kf1, &mut part) {
                    Verdict::Ok => {}
                    Verdict::Known(kf, ex) => part.known(kf, ex),
                    Verdict::Bad(v) => part.viol(v),
                  }
                }
              }
            }
          }
        }
      }
      part
    });
    total.merge(band);
  }
  // vertex-grazing cones (C05): every vertex of the class cells (corners, borders, seam and
  // transition-latitude cells, 32 interior cells per base cell) of depths 8..10 (11 thorough), cone
  // radii 0.06 and 0.15 rad -- start depth 3..4, i.e. 4..7 levels above the requested depth, where
  // the per-depth cell-size bounds are used at their tightest
  if !c06 {
    let depths: Vec<u8> = if quick { vec![8, 10] } else { vec![7, 8, 9, 10, 11] };
    let cells: Vec<(u8, u64)> = depths.iter().flat_map(|&d| crate::alpha::class_cells(d).into_iter().map(move |h| (d, h))).collect();
    let chunk = 64usize;
    let graze = par_jobs((cells.len() + chunk - 1) / chunk, |job| {
      let mut part = Part::new();
      if ctx.over_budget() {
        part.caps.push(format!("wall budget {}s reached in the vertex-grazing cones", ctx.budget_s));
        return part;
      }
      for &(d, h) in &cells[job * chunk..((job + 1) * chunk).min(cells.len())] {
        for k in 0..4usize {
          for r in [0.06, 0.15] {
            if let Some(v) = check_vertex_grazing(d, h, k, r, &mut part) {
              part.viol(v);
            }
          }
        }
      }
      part
    });
    total.merge(graze);
  }
  let mut extra = Map::new();
  // the recorded witness of KF-1 is re-executed on every run (information only)
  if !c06 {
    if let Some(w) = ctx.findings.witness(KF1) {
      let q = ConeQ { variant: 0, depth: w["depth"].as_u64().unwrap_or(3) as u8, delta: 0, lon: w["lon"].as_f64().unwrap_or(0.0), lat: w["lat"].as_f64().unwrap_or(0.0), r: w["radius"].as_f64().unwrap_or(0.1) };
      let still = !matches!(check_c05(&q, false, &mut Part::new()), Verdict::Ok);
      if !still {
        eprintln!("[hpxmc] NOTE: the recorded witness of known finding KF-1 no longer fails on this tree");
      }
      extra.insert("kf1_witness_still_fails".into(), json!(still));
    }
  }
  extra.insert("start_depth_thresholds_recovered".into(), json!(thresholds().to_vec()));
  finish(
    ctx,
    total,
    json!({"shallow_depths": format!("0..={} (every cell of the depth is a candidate)", dmax), "delta_depths": deltas, "variants": ["approx", "flat", "custom"],
      "centres": cs.len(), "radius_relative_centres": "for every radius < 1.2: centres at 2 (quick) / 5 (thorough) fractions of the radius on either side of the 7 critical parallels (transition, square-cell, equator, poles) x 3 / 6 longitudes near the critical meridians", "radii_per_depth": radii_for(dmax, quick).len(), "deep_depths": deep_depths, "deep_large": "cones hundreds to thousands of cells across (outputs of 1e4..1e5 cells) at depths 13, 20 (quick) / 12..22 (thorough), 4 generic centres, approx + custom",
      "witnesses": "9x9 lattice of each closed cell (vertices and edge points included) + the cone centre"}),
    "every (variant, depth, delta_depth, centre, radius) combination of the alphabets; for each shallow query every cell of the depth",
    vec![
      "witness oracle: a cell is demanded only if one of its 81 lattice points (or the cone centre strictly inside it) is inside the cone by a 1e-9 margin".into(),
      "reference maximum centre-to-vertex distance per depth computed from R1 (exhaustive to depth 8)".into(),
      "cone parameters between alphabet points are outside the bound".into(),
    ],
    extra,
  )
}

pub fn replay(case: &Value, c06: bool, findings: &Findings) -> Option<Viol> {
  let q = ConeQ::from_json(case);
  let mut part = Part::new();
  if c06 {
    return check_c06(&q, &mut part);
  }
  if let Some(g) = case.get("grazing") {
    // rebuilt from (cell, vertex, radius): the cone centre follows
    return check_vertex_grazing(q.depth, u64_from_json(&g["cell"]), g["vertex"].as_u64().unwrap_or(0) as usize, q.r, &mut part);
  }
  let listed = findings.listed("C05", KF1);
  let v = if q.depth <= 5 { check_c05(&q, listed, &mut part) } else { check_c05_deep(&q, listed, &mut part) };
  match v {
    Verdict::Bad(v) => Some(v),
    _ => None,
  }
}

/// Witness oracle shared with C13: cells of `depth` touched by the cone (lon, lat, r) that are not
/// covered according to the bitmap `cov` (at most `limit` of them), with the reason.
pub fn witness_misses(depth: u8, lon: f64, lat: f64, r: f64, cov: &[bool], limit: usize) -> Vec<(u64, String)> {
  let tab = witness_tab(depth);
  let c = unit_vec(lon, lat);
  let m = touch_margin(r);
  let thr_touch = chord2_of_angle(r - m);
  let thr_cull = chord2_of_angle((r + max_c2v(depth) + 1e-9).min(PI));
  let cull_all = r + max_c2v(depth) + 1e-9 >= PI;
  let (px, py) = ref_proj(lon, lat);
  let mut out = vec![];
  for h in 0..n_hash(depth) {
    if cov[h as usize] {
      continue;
    }
    if !cull_all && chord2(&tab.centers[h as usize], &c) > thr_cull {
      continue;
    }
    let mut why: Option<String> = None;
    if r > 0.0 && outside(depth, h, px, py) <= -1e-12 {
      why = Some("the centre lies strictly inside the cell".into());
    } else {
      let w = &tab.wit[(h as usize) * WK * WK..(h as usize + 1) * WK * WK];
      for (k, p) in w.iter().enumerate() {
        if chord2(p, &c) <= thr_touch {
          let (l, b) = lonlat_of(p);
          why = Some(format!("its point #{} ({:e}, {:e}) is at {:e} rad from the centre, radius {:e}", k, l, b, ang_dist_vec(p, &c), r));
          break;
        }
      }
    }
    if let Some(w) = why {
      out.push((h, w));
      if out.len() >= limit {
        break;
      }
    }
  }
  out
}

pub fn bitmap_of(map: &RangeMap, depth: u8) -> Vec<bool> {
  covered_bitmap(map, depth)
}
