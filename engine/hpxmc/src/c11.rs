//! C11: RING scheme for any NSIDE -- shape S.

use crate::refm::*;
use crate::report::*;
use cdshealpix::ring;
use serde_json::{json, Map, Value};

pub const KF2: &str = "ring::hash/polar-seam";

fn case_cell(n: u32, h: u64) -> Value {
  json!({"kind": "cell", "nside": n, "hash": h.to_string()})
}
fn case_pos(n: u32, lon: f64, lat: f64) -> Value {
  json!({"kind": "pos", "nside": n, "lon": f64_json(lon), "lat": f64_json(lat)})
}

/// KF-2 predicate (inputs and reference model only): R1 puts the position within 8e-15 plane
/// units (~4 ulp of the abscissa) of a facet boundary of a polar cap -- the meridians k*pi/2 at
/// or above the transition latitude, seam end points on the transition parallels and the poles
/// included.
pub fn on_polar_seam(lon: f64, lat: f64) -> bool {
  const D: f64 = 8e-15;
  let (x, y) = ref_proj(lon, lat);
  let ay = y.abs();
  if ay < 1.0 - D {
    return false;
  }
  let t = (2.0 - ay).max(0.0).min(1.0);
  let q = (x * 0.5).floor();
  let d = x - 2.0 * q - 1.0;
  (d.abs() - t).abs() <= D || t <= D
}

/// containment of the sphere point (plane (x, y)) in the R3 diamond of RING cell h
fn ring_outside(n: u32, h: u64, x: f64, y: f64) -> f64 {
  let nf = n as f64;
  let (cx, cy) = ring_center(n as u64, h);
  let (xc, yc) = (cx as f64 / nf, cy as f64 / nf);
  let (imgs, k) = images(x, y);
  let mut best = f64::INFINITY;
  for &(xi, yi) in &imgs[..k] {
    let d = wrap8(xi - xc).abs() + (yi - yc).abs() - 1.0 / nf;
    if d < best {
      best = d;
    }
  }
  best
}

pub enum V {
  Ok,
  Known(Value),
  Bad(Viol),
}

/// hash / hash_with_dxdy / sph_coo on one position.
pub fn check_pos(n: u32, lon: f64, lat: f64, listed_kf2: bool, part: &mut Part) -> V {
  journal("ring::hash", || case_pos(n, lon, lat));
  let nh = ring_n_hash(n as u64);
  let (x, y) = ref_proj(lon, lat);
  let seam = listed_kf2 && on_polar_seam(lon, lat);
  let bad = |api: &str, kind: &str, expected: String, actual: String, seam_kind: bool| -> V {
    if seam && seam_kind {
      V::Known(case_pos(n, lon, lat))
    } else {
      V::Bad(Viol { api: api.into(), kind: kind.into(), case: case_pos(n, lon, lat), expected, actual })
    }
  };
  let h = match guarded(move || ring::hash(n, lon, lat)) {
    Ok(h) => h,
    Err(m) => return bad("ring::hash", "panic-in-domain", "a cell".into(), format!("panic: {}", m), true),
  };
  part.outcome(hash64(&[n as u64, h]));
  if h >= nh {
    return bad("ring::hash", "out-of-range", format!("< {}", nh), format!("{}", h), true);
  }
  let o = ring_outside(n, h, x, y);
  part.validated += 1;
  if !(o <= TOL_PLANE) {
    return bad("ring::hash", "not-contained", "the cell containing the position".into(), format!("cell {} whose diamond is {:e} plane units (= {:e} cells) away", h, o, o * n as f64), true);
  }
  let (h2, dx, dy) = match guarded(move || ring::hash_with_dxdy(n, lon, lat)) {
    Ok(v) => v,
    Err(m) => return bad("ring::hash_with_dxdy", "panic-in-domain", "(cell, dx, dy)".into(), format!("panic: {}", m), true),
  };
  if h2 >= nh {
    return bad("ring::hash_with_dxdy", "out-of-range", format!("< {}", nh), format!("{}", h2), true);
  }
  let o2 = ring_outside(n, h2, x, y);
  if !(o2 <= TOL_PLANE) {
    return bad("ring::hash_with_dxdy", "not-contained", "a cell containing the position".into(), format!("cell {} ({:e} away)", h2, o2), true);
  }
  let eps = 4.0 * f64::EPSILON * 8.0 * (n as f64) / 2.0 + 1e-12;
  if !(dx.is_finite() && dy.is_finite() && dx >= -eps && dx <= 1.0 + eps && dy >= -eps && dy <= 1.0 + eps) {
    return bad("ring::hash_with_dxdy", "offsets-out-of-range", "finite offsets in [0, 1]".into(), format!("cell {} dx {:e} dy {:e}", h2, dx, dy), true);
  }
  // sph_coo inverts hash_with_dxdy whenever both offsets are below 1
  if std::env::var("HPXMC_SKIP_RT").is_err() && dx >= 0.0 && dx < 1.0 && dy >= 0.0 && dy < 1.0 {
    match guarded(move || ring::sph_coo(n, h2, dx, dy)) {
      Ok((l3, b3)) => {
        let ad = ang_dist(lon, lat, l3, b3);
        part.validated += 1;
        if !(ad <= 1e-13) {
          return bad("ring::sph_coo(hash_with_dxdy)", "round-trip", "the position within 1e-13 rad".into(), format!("({:e}, {:e}), {:e} rad away (cell {} dx {:e} dy {:e})", l3, b3, ad, h2, dx, dy), true);
        }
      }
      Err(m) => return bad("ring::sph_coo(hash_with_dxdy)", "panic-in-domain", "a position".into(), format!("panic: {}", m), true),
    }
  }
  V::Ok
}

/// centre, ordering, hash(centre) on one cell.
pub fn check_cell(n: u32, h: u64, part: &mut Part) -> Option<Viol> {
  journal("ring cell accessors", || case_cell(n, h));
  let nf = n as f64;
  let mk = |api: &str, kind: &str, expected: String, actual: String| Some(Viol { api: api.into(), kind: kind.into(), case: case_cell(n, h), expected, actual });
  let (cx, cy) = ring_center(n as u64, h);
  let (ex, ey) = (cx as f64 / nf, cy as f64 / nf);
  let (px, py) = match guarded(move || ring::center_of_projected_cell(n, h)) {
    Ok(v) => v,
    Err(m) => return mk("ring::center_of_projected_cell", "panic-in-domain", "a centre".into(), m),
  };
  part.validated += 1;
  let d = wrap8(px - ex).abs().max((py - ey).abs());
  if !(d <= 4e-15 * (1.0 + ex.abs())) {
    return mk("ring::center_of_projected_cell", "wrong-centre", format!("({:e}, {:e}) = lattice ({}, {}) / {} (rank {} by latitude desc, longitude asc; 4i cells in polar ring i, 4 nside in equatorial rings)", ex, ey, cx, cy, n, h), format!("({:e}, {:e})", px, py));
  }
  let (lon, lat) = match guarded(move || ring::center(n, h)) {
    Ok(v) => v,
    Err(m) => return mk("ring::center", "panic-in-domain", "a position".into(), m),
  };
  let (rl, rb) = ref_unproj(ex, ey);
  if !(ang_dist(lon, lat, rl, rb) <= 1e-14) {
    return mk("ring::center", "wrong-centre", format!("({:e}, {:e})", rl, rb), format!("({:e}, {:e})", lon, lat));
  }
  part.outcome(hash64(&[n as u64, lon.to_bits(), lat.to_bits()]));
  match guarded(move || ring::hash(n, lon, lat)) {
    Ok(g) if g == h => {}
    other => return mk("ring::hash(center)", "does-not-hash-back", format!("{}", h), format!("{:?}", other)),
  }
  match guarded(move || ring::hash_with_dxdy(n, lon, lat)) {
    Ok((g, dx, dy)) if g == h && (dx - 0.5).abs() <= 1e-6 && (dy - 0.5).abs() <= 1e-6 => {}
    other => return mk("ring::hash_with_dxdy(center)", "does-not-hash-back", format!("({}, 0.5, 0.5)", h), format!("{:?}", other)),
  }
  // sph_coo at offsets
  for &(dx, dy) in &[(0.5, 0.5), (0.1, 0.2), (0.9, 0.3), (0.0, 0.0), (0.75, 0.99)] {
    match guarded(move || ring::sph_coo(n, h, dx, dy)) {
      Ok((l, b)) => {
        let (qx, qy) = (ex + (dx - dy) / nf, ey + (dx + dy - 1.0) / nf);
        let (rl, rb) = ref_unproj(qx, qy.max(-2.0).min(2.0));
        if !(ang_dist(l, b, rl, rb) <= 1e-13) {
          return mk("ring::sph_coo", "wrong-position", format!("({:e}, {:e}) for offsets ({}, {})", rl, rb, dx, dy), format!("({:e}, {:e})", l, b));
        }
      }
      Err(m) => return mk("ring::sph_coo", "panic-in-domain", "a position".into(), m),
    }
  }
  None
}

/// the 11 characteristic lattice points of a RING cell (plane coordinates)
fn cell_points(n: u32, h: u64) -> Vec<(f64, f64)> {
  let nf = n as f64;
  let (cx, cy) = ring_center(n as u64, h);
  let offs: [(f64, f64); 11] = [(0.0, 0.0), (0.0, -1.0), (1.0, 0.0), (0.0, 1.0), (-1.0, 0.0), (0.5, -0.5), (0.5, 0.5), (-0.5, 0.5), (-0.5, -0.5), (0.25, 0.125), (-0.3, -0.4)];
  offs.iter().map(|(dx, dy)| (((cx as f64 + dx) / nf).rem_euclid(8.0), ((cy as f64 + dy) / nf).max(-2.0).min(2.0))).collect()
}

fn class_cells_ring(n: u64) -> Vec<u64> {
  let total = 12 * n * n;
  let mut v: Vec<u64> = vec![0, 1, 2, 3, 4, 5, total - 1, total - 2, total - 3, total - 4, total - 5, total / 2, total / 2 + 1, total / 3, total / 4];
  let ncap = 2 * n * (n + 1);
  for base in [ncap, total - ncap, 2 * n * (n - 1).max(1), 6 * n * n - 2 * n, 6 * n * n + 2 * n] {
    for d in -3i64..=3 {
      let x = base as i64 + d;
      if x >= 0 && (x as u64) < total {
        v.push(x as u64);
      }
    }
  }
  // ring boundaries of a spread of rings
  let mut rings: Vec<u64> = vec![1, 2, 3, n / 2, n - 1, n, n + 1, 2 * n, 3 * n - 1, 3 * n, 3 * n + 1, 4 * n - 2, 4 * n - 1];
  for k in 1..40u64 {
    rings.push((k * 2_654_435_761u64) % (4 * n - 1) + 1);
  }
  for j in rings {
    if j < 1 || j > 4 * n - 1 {
      continue;
    }
    let y = 2 * n as i64 - j as i64;
    let jp = if j <= n { j } else if j < 3 * n { 0 } else { 4 * n - j } as i64;
    let x0 = if jp > 0 { n as i64 - jp + 1 } else { (y + n as i64 + 1).rem_euclid(2) };
    if let Some(first) = ring_index(n, x0, y) {
      let cells = if jp > 0 { 4 * jp as u64 } else { 4 * n };
      for f in [3u64, 7, 11] {
        let idx = first + (cells * f) / 13;
        if idx < total {
          v.push(idx);
        }
      }
      for k in 0..=4u64 {
        for d in [-1i64, 0, 1] {
          let idx = (first + k * cells / 4) as i64 + d;
          if idx >= 0 && (idx as u64) < total {
            v.push(idx as u64);
          }
        }
      }
    }
  }
  v.sort();
  v.dedup();
  v
}


/// The public layout constants of the RING scheme against R3, for one nside.
pub fn check_layout(n: u32, part: &mut Part) -> Option<Viol> {
  let nn = n as u64;
  let case = json!({"kind": "layout", "nside": n});
  let got = guarded(move || {
    [
      ring::n_hash(n),
      ring::n_isolatitude_rings(n) as u64,
      ring::first_hash_on_npc_eqr_transition(n),
      ring::first_hash_in_eqr(n),
      ring::first_hash_on_eqr_spc_transition(n),
      ring::first_hash_in_spc(n),
    ]
  });
  let got = match got {
    Ok(g) => g,
    Err(m) => return Some(Viol { api: "ring layout constants".into(), kind: "panic-in-domain".into(), case, expected: "6 numbers".into(), actual: m }),
  };
  part.validated += 1;
  part.outcome(hash64(&got));
  // expected: from the reference ring decomposition (ring j in 1..=4n-1)
  let total = ring_n_hash(nn);
  let first_of = |j: u64| -> u64 {
    // first index r with ring_decode(n, r).0 == j: walk from the closed form and verify with R3
    let r = if j <= nn { 2 * (j - 1) * j } else if j <= 3 * nn { 2 * nn * (nn + 1) + (j - nn - 1) * 4 * nn } else { total - 2 * (4 * nn - j) * (4 * nn - j + 1) };
    assert!(ring_decode(nn, r) == (j, 0) && (r == 0 || ring_decode(nn, r - 1).0 == j - 1), "oracle: ring start");
    r
  };
  let exp = [total, 4 * nn - 1, first_of(nn), first_of(nn + 1), first_of(3 * nn), if nn >= 1 && 3 * nn + 1 <= 4 * nn - 1 { first_of(3 * nn + 1) } else { total }];
  let names = ["n_hash", "n_isolatitude_rings", "first_hash_on_npc_eqr_transition", "first_hash_in_eqr", "first_hash_on_eqr_spc_transition", "first_hash_in_spc"];
  for k in 0..6 {
    if got[k] != exp[k] {
      return Some(Viol { api: format!("ring::{}", names[k]), kind: "wrong-layout-constant".into(), case, expected: format!("{} (first cell of the corresponding isolatitude ring of the reference enumeration)", exp[k]), actual: got[k].to_string() });
    }
  }
  None
}

/// Key cells of an nside for the nside sweep: starts / ends of the region boundary rings and one
/// generic cell per region.
fn sweep_cells(n: u64) -> Vec<u64> {
  let total = 12 * n * n;
  let ncap = 2 * n * (n + 1);
  let mut v: Vec<u64> = vec![0, total - 1, ncap - 1, ncap, total - ncap - 1, total - ncap, 2 * n * (n - 1), total / 2 + n / 3];
  for f in [0.07, 0.13, 0.29, 0.37, 0.55, 0.63, 0.71, 0.8, 0.87, 0.93] {
    v.push(((total as f64) * f) as u64);
  }
  v.retain(|&h| h < total);
  v.sort();
  v.dedup();
  v
}

pub fn run(ctx: &Ctx) -> i32 {
  let quick = ctx.quick();
  let listed_kf2 = ctx.findings.listed("C11", KF2);
  let n_exh: u32 = if quick { 64 } else { 256 };
  let mut large: Vec<u32> = vec![97, 1000, 4099, 65537, 1_000_003, (1 << 26) + 1, 3 << 27, (1 << 29) - 1, 1 << 29];
  for k in [6u32, 10, 15, 20, 25, 26, 27, 28] {
    large.push(1 << k);
    large.push((1 << k) + 1);
    large.push((1 << k) - 1);
  }
  large.sort();
  large.dedup();
  enum Job {
    Small(u32),
    Large(u32),
    Sweep(u32, u32),
  }
  let mut jobs: Vec<Job> = (1..=n_exh).map(Job::Small).collect();
  // every integer literal of the current sources that is a valid nside (and its neighbours): key
  // cells + layout constants, like the nside sweep
  {
    let mut lits: Vec<u32> = vec![];
    for &l in crate::alpha::source_literals().0.iter() {
      for n in [l.saturating_sub(1), l, l.saturating_add(1)] {
        if n >= 1 && n <= (1u64 << 29) {
          lits.push(n as u32);
        }
      }
    }
    lits.sort();
    lits.dedup();
    for n in lits {
      jobs.push(Job::Sweep(n, n));
    }
  }
  // nside sweep: EVERY nside up to the bound (key cells + layout constants), then a stride
  let n_sweep: u32 = if quick { 40_000 } else { 1 << 20 };
  {
    let mut lo = 1u32;
    while lo <= n_sweep {
      jobs.push(Job::Sweep(lo, (lo + 499).min(n_sweep)));
      lo += 500;
    }
  }
  for &n in &large {
    if n > n_exh {
      jobs.push(Job::Large(n));
    }
  }
  let mut total = par_jobs(jobs.len(), |j| {
    let mut part = Part::new();
    if ctx.over_budget() {
      part.caps.push(format!("wall budget {}s reached in C11 enumeration", ctx.budget_s));
      return part;
    }
    if let Job::Sweep(lo, hi) = &jobs[j] {
      for n in *lo..=*hi {
        part.stratum("nside-sweep", 1, 6);
        if let Some(v) = check_layout(n, &mut part) {
          part.viol(v);
        }
        for h in sweep_cells(n as u64) {
          part.stratum("nside-sweep", 1, 8);
          if let Some(v) = check_cell(n, h, &mut part) {
            part.viol(v);
          }
        }
      }
      return part;
    }
    let (n, cells): (u32, Vec<u64>) = match &jobs[j] {
      Job::Small(n) => (*n, (0..ring_n_hash(*n as u64)).collect()),
      Job::Large(n) => (*n, class_cells_ring(*n as u64)),
      Job::Sweep(..) => unreachable!(),
    };
    if let Some(v) = check_layout(n, &mut part) {
      part.viol(v);
    }
    let stratum = if matches!(jobs[j], Job::Small(_)) { "small-nside-all-cells" } else { "large-nside-class-cells" };
    // positions: fewer nudges for the bigger exhaustive nsides
    let k_nudge = if n <= 16 || matches!(jobs[j], Job::Large(_)) { 1 } else { 0 };
    for &h in &cells {
      part.stratum(stratum, 1, 8);
      if let Some(v) = check_cell(n, h, &mut part) {
        part.viol(v);
      }
      for (px, py) in cell_points(n, h) {
        let (lon0, lat0) = ref_unproj(px, py);
        for (lon, lat) in crate::alpha::nudged(lon0, lat0, k_nudge) {
          if lat.abs() > HALF_PI {
            continue;
          }
          part.stratum("positions", 1, 3);
          match check_pos(n, lon, lat, listed_kf2, &mut part) {
            V::Ok => {}
            V::Known(ex) => part.known(KF2, ex),
            V::Bad(v) => part.viol(v),
          }
        }
      }
    }
    if n == 7 {
      part.sample(json!({"nside": 7, "hash": 100, "center": format!("{:?}", ring::center(7, 100))}));
    }
    part
  });
  // rejections
  for &n in &[1u32, 3, 8, 1000, 1 << 29] {
    let nh = ring_n_hash(n as u64);
    for h in [nh, nh + 1, u64::MAX] {
      total.stratum("out-of-range", 1, 4);
      let t: Vec<(&str, bool)> = vec![
        ("ring::center", guarded(move || ring::center(n, h)).is_ok()),
        ("ring::center_of_projected_cell", guarded(move || ring::center_of_projected_cell(n, h)).is_ok()),
        ("ring::sph_coo", guarded(move || ring::sph_coo(n, h, 0.5, 0.5)).is_ok()),
        ("ring::vertices", guarded(move || ring::vertices(n, h)).is_ok()),
      ];
      for (api, ok) in t {
        if ok {
          total.viol(Viol { api: api.into(), kind: "out-of-range-accepted".into(), case: json!({"kind": "badhash", "nside": n, "hash": h.to_string()}), expected: "panic".into(), actual: "returned".into() });
        }
      }
    }
    for lat in [next_up(HALF_PI), -2.0, f64::NAN, f64::INFINITY] {
      total.stratum("out-of-range", 1, 2);
      if guarded(move || ring::hash(n, 1.0, lat)).is_ok() || guarded(move || ring::hash_with_dxdy(n, 1.0, lat)).is_ok() {
        total.viol(Viol { api: "ring::hash".into(), kind: "out-of-domain-accepted".into(), case: case_pos(n, 1.0, lat), expected: "panic".into(), actual: "returned".into() });
      }
    }
  }
  // exponent sweep around the critical parallels / meridians, a spread of nside values
  {
    let mut pos = crate::alpha::exponent_sweep_positions();
    pos.extend(crate::alpha::degree_positions().into_iter().step_by(3)); // "round" user values: integer degrees
    let ns: Vec<u32> = vec![1, 2, 3, 5, 8, 100, 4099, 65536, 1_000_003, 1 << 29];
    let sweep = par_jobs(ns.len(), |k| {
      let mut part = Part::new();
      for (ip, &(lon, lat)) in pos.iter().enumerate() {
        part.stratum("exponent-sweep", 1, 3);
        match check_pos(ns[k], lon, lat, listed_kf2, &mut part) {
          V::Ok => {}
          V::Known(ex) => part.known(KF2, ex),
          V::Bad(v) => part.viol(v),
        }
        // the same point written with whole turns added or removed (every fifth position)
        if ip % 5 == 0 {
          for t in [-3.0, -2.0, -1.0, 1.0, 2.0, 3.0] {
            part.stratum("positions-turns", 1, 3);
            match check_pos(ns[k], lon + t * TWO_PI, lat, listed_kf2, &mut part) {
              V::Ok => {}
              V::Known(ex) => part.known(KF2, ex),
              V::Bad(v) => part.viol(v),
            }
          }
        }
      }
      part
    });
    total.merge(sweep);
  }
  let mut extra = Map::new();
  if let Some(w) = ctx.findings.witness(KF2) {
    let (n, lon, lat) = (w["nside"].as_u64().unwrap_or(2) as u32, w["lon"].as_f64().unwrap_or(0.0), w["lat"].as_f64().unwrap_or(1.2));
    let still = !matches!(check_pos(n, lon, lat, false, &mut Part::new()), V::Ok);
    if !still {
      eprintln!("[hpxmc] NOTE: the recorded witness of known finding KF-2 no longer fails on this tree");
    }
    extra.insert("kf2_witness_still_fails".into(), json!(still));
  }
  finish(
    ctx,
    total,
    json!({"exhaustive_nside": format!("1..={} (all cells; 11 lattice points per cell, 3x3 ulp nudges for nside <= 16)", n_exh), "large_nside": large,
      "large_nside_cells": "first/last cells, cap/equator boundaries, boundaries of ~50 rings"}),
    "all cells of the exhaustive nsides; the class cells of the listed large nsides; rejection of out-of-range arguments",
    vec!["exact RING order model R3 and projection R1".into(), "positions matching the known finding KF-2 (polar-cap seams) are reported as KNOWN-FINDING for ring::hash / ring::hash_with_dxdy only".into()],
    extra,
  )
}

pub fn replay(case: &Value, findings: &Findings) -> Option<Viol> {
  let mut part = Part::new();
  let n = case["nside"].as_u64().unwrap() as u32;
  match case["kind"].as_str().unwrap_or("") {
    "cell" => check_cell(n, u64_from_json(&case["hash"]), &mut part),
    "layout" => check_layout(n, &mut part),
    "pos" => match check_pos(n, f64_from_json(&case["lon"]), f64_from_json(&case["lat"]), findings.listed("C11", KF2), &mut part) {
      V::Bad(v) => Some(v),
      _ => None,
    },
    _ => {
      let h = u64_from_json(&case["hash"]);
      if guarded(move || ring::center(n, h)).is_ok() {
        Some(Viol { api: "ring::center".into(), kind: "out-of-range-accepted".into(), case: case.clone(), expected: "panic".into(), actual: "returned".into() })
      } else {
        None
      }
    }
  }
}
