//! C03: cell geometry accessors mutually consistent, map back to their cell -- shape S.

use crate::alpha::*;
use crate::refm::*;
use crate::report::*;
use cdshealpix::compass_point::{Cardinal, CardinalSet};
use cdshealpix::nested;
use serde_json::{json, Map, Value};

const TOL_ANG: f64 = 1e-13;
const OFFS: [f64; 5] = [0.02, 0.25, 0.5, 0.75, 0.98];
const CARD: [&str; 4] = ["S", "E", "N", "W"];

fn cell_case(depth: u8, h: u64) -> Value {
  json!({"kind": "cell", "depth": depth, "hash": h.to_string()})
}
fn pos_case(depth: u8, lon: f64, lat: f64) -> Value {
  json!({"kind": "pos", "depth": depth, "lon": f64_json(lon), "lat": f64_json(lat)})
}

fn offs_eps(depth: u8) -> f64 {
  4.0 * f64::EPSILON * 8.0 * (nside(depth) as f64) / 2.0 + 1e-12
}

/// Plane point of the cell frame: south vertex + dx along SE + dy along SW.
fn plane_of_offsets(depth: u8, h: u64, dx: f64, dy: f64) -> (f64, f64) {
  let n = nside(depth) as f64;
  let (xc, yc) = center_plane(depth, h);
  (xc + (dx - dy) / n, yc + (dx + dy - 1.0) / n)
}

/// distance (max norm, plane) between the projection of a sphere position and a plane point, over images
fn plane_dist(lon: f64, lat: f64, px: f64, py: f64) -> f64 {
  let (rx, ry) = ref_proj(lon, lat);
  let (imgs, k) = images(px.rem_euclid(8.0), py);
  let mut best = f64::INFINITY;
  for &(xi, yi) in &imgs[..k] {
    let d = wrap8(rx - xi).abs().max((ry - yi).abs());
    if d < best {
      best = d;
    }
  }
  best
}

/// Move the sphere point p towards the centre of cell h by `frac` of the cell half-diagonal (in the plane).
fn nudge_inwards(depth: u8, h: u64, lon: f64, lat: f64, frac: f64) -> (f64, f64) {
  let (xc, yc) = center_plane(depth, h);
  let (rx, ry) = ref_proj(lon, lat);
  // choose the image of p closest to the cell centre
  let (imgs, k) = images(rx, ry);
  let mut best = (f64::INFINITY, rx, ry);
  for &(xi, yi) in &imgs[..k] {
    let dx = wrap8(xi - xc);
    let d = dx.abs() + (yi - yc).abs();
    if d < best.0 {
      best = (d, xc + dx, yi);
    }
  }
  let (px, py) = (best.1, best.2);
  // p + frac * (c - p), but by at least frac/n in L1 norm (a vertex is 1/n away, an edge mid-point 1/n too)
  let x = px + frac * (xc - px);
  let y = py + frac * (yc - py);
  ref_unproj(x, y.max(-2.0).min(2.0))
}

macro_rules! viol {
  ($api:expr, $kind:expr, $case:expr, $exp:expr, $act:expr) => {
    return Some(Viol { api: $api.into(), kind: $kind.into(), case: $case, expected: $exp, actual: $act })
  };
}

fn hash_back(depth: u8, h: u64, lon: f64, lat: f64, what: &str, api: &str, case: &Value) -> Option<Viol> {
  match guarded(move || nested::hash(depth, lon, lat)) {
    Ok(g) if g == h => None,
    Ok(g) => Some(Viol { api: api.into(), kind: "does-not-hash-back".into(), case: case.clone(), expected: format!("{} ({:e}, {:e}) hashes to cell {}", what, lon, lat, h), actual: format!("hashes to {}", g) }),
    Err(m) => Some(Viol { api: api.into(), kind: "panic-in-domain".into(), case: case.clone(), expected: format!("{} hashes to {}", what, h), actual: m }),
  }
}

pub fn check_cell(depth: u8, h: u64, part: &mut Part) -> Option<Viol> {
  let case = cell_case(depth, h);
  journal("nested geometry accessors", || case.clone());
  // 1. centre
  let c = match guarded(move || nested::center(depth, h)) {
    Ok(c) => c,
    Err(m) => viol!("nested::center", "panic-in-domain", case, "a position".into(), m),
  };
  part.outcome(hash64(&[c.0.to_bits(), c.1.to_bits()]));
  let (xc, yc) = center_plane(depth, h);
  let d = plane_dist(c.0, c.1, xc, yc);
  part.validated += 1;
  if !(d <= TOL_PLANE) {
    viol!("nested::center", "wrong-centre", case, format!("projects to the lattice centre ({:e}, {:e})", xc, yc), format!("({:e}, {:e}) projects {:e} away", c.0, c.1, d));
  }
  if let Some(v) = hash_back(depth, h, c.0, c.1, "centre", "nested::center", &case) {
    return Some(v);
  }
  // 2. interior offsets
  for &dx in &OFFS {
    for &dy in &OFFS {
      let p = match guarded(move || nested::sph_coo(depth, h, dx, dy)) {
        Ok(p) => p,
        Err(m) => viol!("nested::sph_coo", "panic-in-domain", case, format!("a position for offsets ({}, {})", dx, dy), m),
      };
      let (px, py) = plane_of_offsets(depth, h, dx, dy);
      let d = plane_dist(p.0, p.1, px, py);
      part.validated += 1;
      if !(d <= TOL_PLANE) {
        viol!("nested::sph_coo", "wrong-position", case, format!("offsets ({}, {}) -> plane ({:e}, {:e})", dx, dy, px, py), format!("({:e}, {:e}), {:e} away in the plane", p.0, p.1, d));
      }
      if let Some(v) = hash_back(depth, h, p.0, p.1, &format!("offset ({}, {})", dx, dy), "nested::sph_coo", &case) {
        return Some(v);
      }
    }
  }
  // 3. vertices: same whichever accessor returns them, and at the lattice vertices
  let vs = match guarded(move || nested::vertices(depth, h)) {
    Ok(v) => v,
    Err(m) => viol!("nested::vertices", "panic-in-domain", case, "4 vertices".into(), m),
  };
  let layer = nested::get_or_create(depth);
  let vmap = match guarded(move || {
    let m = layer.vertices_map(h, CardinalSet::all());
    [*m.get(Cardinal::S).unwrap(), *m.get(Cardinal::E).unwrap(), *m.get(Cardinal::N).unwrap(), *m.get(Cardinal::W).unwrap()]
  }) {
    Ok(v) => v,
    Err(m) => viol!("Layer::vertices_map", "panic-in-domain", case, "4 vertices".into(), m),
  };
  // vertices_map on EVERY subset of the four directions: exactly the requested vertices, each
  // identical to the one `vertices` returns
  for mask in 0..16u8 {
    let got = guarded(move || {
      let mut set = CardinalSet::new();
      for k in 0..4u8 {
        if mask >> k & 1 == 1 {
          set.set(Cardinal::from_index(k), true);
        }
      }
      let m = layer.vertices_map(h, set);
      [m.get(Cardinal::S).copied(), m.get(Cardinal::E).copied(), m.get(Cardinal::N).copied(), m.get(Cardinal::W).copied()]
    });
    let got = match got {
      Ok(g) => g,
      Err(m) => viol!("Layer::vertices_map", "panic-in-domain", case, format!("the vertices of the direction set {:04b}", mask), m),
    };
    part.validated += 1;
    for k in 0..4usize {
      let want = if mask >> k & 1 == 1 { Some(vs[k]) } else { None };
      let ok = match (got[k], want) {
        (None, None) => true,
        (Some(a), Some(b)) => a.0.to_bits() == b.0.to_bits() && a.1.to_bits() == b.1.to_bits() || ((a.0 - b.0).abs() <= 4.0 * f64::EPSILON * b.0.abs() && (a.1 - b.1).abs() <= 4.0 * f64::EPSILON * b.1.abs()),
        _ => false,
      };
      if !ok {
        viol!("Layer::vertices_map", "vertex-accessors-differ", case, format!("direction set {:04b} (bit k = S,E,N,W): {} -> {:?}", mask, CARD[k], want), format!("{:?}", got[k]));
      }
    }
  }
  let lat_v = vertices_lattice(depth, h);
  let n = nside(depth) as f64;
  for k in 0..4usize {
    let v1 = match guarded(move || layer.vertex(h, Cardinal::from_index(k as u8))) {
      Ok(v) => v,
      Err(m) => viol!("Layer::vertex", "panic-in-domain", case, "a vertex".into(), m),
    };
    // "the same" coordinates: identical up to a few ulps (a 2 pi shift of the longitude is a difference)
    let close = |x: f64, y: f64| x == y || (x - y).abs() <= 4.0 * f64::EPSILON * x.abs().max(y.abs());
    let same = |a: (f64, f64), b: (f64, f64)| close(a.0, b.0) && close(a.1, b.1);
    part.validated += 1;
    if !same(v1, vs[k]) || !same(v1, vmap[k]) {
      viol!("vertex/vertices/vertices_map", "vertex-accessors-differ", case, format!("the same {} vertex from the three accessors", CARD[k]), format!("vertex: {:?}, vertices: {:?}, vertices_map: {:?}", v1, vs[k], vmap[k]));
    }
    let next = (k + 1) % 4;
    let side = match guarded(move || layer.path_along_cell_side(h, &Cardinal::from_index(k as u8), &Cardinal::from_index(next as u8), true, 2)) {
      Ok(v) => v,
      Err(m) => viol!("Layer::path_along_cell_side", "panic-in-domain", case, "3 points".into(), m),
    };
    if side.len() != 3 || !same(side[0], v1) {
      viol!("Layer::path_along_cell_side", "vertex-accessors-differ", case, format!("3 points starting at the {} vertex {:?}", CARD[k], v1), format!("{:?}", side));
    }
    // every (from, to, include_to_vertex) combination of the side paths starting at this vertex
    for to in 0..4usize {
      if to == k {
        continue;
      }
      for incl in [false, true] {
        for nseg in [1u32, 3] {
          let r = guarded(move || layer.path_along_cell_side(h, &Cardinal::from_index(k as u8), &Cardinal::from_index(to as u8), incl, nseg));
          let path = match r {
            Ok(p) => p,
            Err(_) if (to + 2) % 4 == k => continue, // opposite vertices are not the ends of a side: a refusal is accepted
            Err(m) => viol!("Layer::path_along_cell_side", "panic-in-domain", case, format!("a path {} -> {}", CARD[k], CARD[to]), m),
          };
          part.validated += 1;
          let want_len = nseg as usize + incl as usize;
          if (to + 2) % 4 == k {
            continue; // a diagonal: nothing is specified
          }
          if path.len() != want_len || !same(path[0], v1) || (incl && !same(path[path.len() - 1], vs[to])) {
            viol!("Layer::path_along_cell_side", "vertex-accessors-differ", case, format!("{} points from the {} vertex {:?} to the {} vertex {:?} (included: {})", want_len, CARD[k], v1, CARD[to], vs[to], incl), format!("{:?}", path));
          }
          for (idx, p) in path.iter().enumerate() {
            let (rx, ry) = ref_proj(p.0, p.1);
            let o = outside(depth, h, rx, ry);
            if !(o.abs() <= TOL_PLANE) {
              viol!("Layer::path_along_cell_side", "not-on-border", case, format!("point {} of the side path {} -> {} (n={}) on the border of the cell", idx, CARD[k], CARD[to], nseg), format!("({:e}, {:e}) is {:e} from the border", p.0, p.1, o));
            }
          }
        }
      }
    }
    let d = plane_dist(v1.0, v1.1, lat_v[k].0 as f64 / n, lat_v[k].1 as f64 / n);
    if !(d <= TOL_PLANE) {
      viol!("Layer::vertex", "wrong-vertex", case, format!("{} vertex at lattice point {:?}", CARD[k], lat_v[k]), format!("({:e}, {:e}), {:e} away in the plane", v1.0, v1.1, d));
    }
  }
  // 4. edge paths
  let nsegs: &[u32] = if h % 7 == 0 { &[1, 3, 4, 17] } else { &[1, 3, 4] };
  for &nseg in nsegs {
    for cw in [false, true] {
      for k in 0..4u8 {
        let path = match guarded(move || nested::path_along_cell_edge(depth, h, &Cardinal::from_index(k), cw, nseg)) {
          Ok(v) => v,
          Err(m) => viol!("nested::path_along_cell_edge", "panic-in-domain", case, "a path".into(), m),
        };
        if path.len() != 4 * nseg as usize {
          viol!("nested::path_along_cell_edge", "wrong-length", case, format!("{} points", 4 * nseg), format!("{}", path.len()));
        }
        let close = |x: f64, y: f64| x == y || (x - y).abs() <= 4.0 * f64::EPSILON * x.abs().max(y.abs());
        let same0 = close(path[0].0, vs[k as usize].0) && close(path[0].1, vs[k as usize].1);
        if !same0 {
          viol!("nested::path_along_cell_edge", "vertex-accessors-differ", case, format!("path starts at the {} vertex {:?}", CARD[k as usize], vs[k as usize]), format!("{:?}", path[0]));
        }
        for (idx, p) in path.iter().enumerate() {
          // on the border of the cell
          let (rx, ry) = ref_proj(p.0, p.1);
          let o = outside(depth, h, rx, ry);
          part.validated += 1;
          if !(o.abs() <= TOL_PLANE) {
            viol!("nested::path_along_cell_edge", "not-on-border", case, format!("point {} of the path (n={}, cw={}, start {}) on the border of the cell", idx, nseg, cw, CARD[k as usize]), format!("({:e}, {:e}) is {:e} from the border", p.0, p.1, o));
          }
          let q = nudge_inwards(depth, h, p.0, p.1, 1e-3);
          if let Some(v) = hash_back(depth, h, q.0, q.1, &format!("path point {} (n={}, cw={}, start {}) nudged inwards", idx, nseg, cw, CARD[k as usize]), "nested::path_along_cell_edge", &case) {
            return Some(v);
          }
        }
      }
    }
  }
  // 5. grids
  let gsegs: &[u16] = if h % 7 == 0 { &[1, 4, 9] } else { &[1, 4] };
  for &nseg in gsegs {
    let g = match guarded(move || nested::grid(depth, h, nseg)) {
      Ok(v) => v,
      Err(m) => viol!("nested::grid", "panic-in-domain", case, "a grid".into(), m),
    };
    let np = (nseg as usize + 1) * (nseg as usize + 1);
    if g.len() != np {
      viol!("nested::grid", "wrong-length", case, format!("{} points", np), format!("{}", g.len()));
    }
    for (idx, p) in g.iter().enumerate() {
      let (rx, ry) = ref_proj(p.0, p.1);
      let o = outside(depth, h, rx, ry);
      part.validated += 1;
      if !(o <= TOL_PLANE) {
        viol!("nested::grid", "outside-cell", case, format!("grid point {} (n={}) inside the closed cell", idx, nseg), format!("({:e}, {:e}) is {:e} outside", p.0, p.1, o));
      }
      let q = nudge_inwards(depth, h, p.0, p.1, 1e-3);
      if let Some(v) = hash_back(depth, h, q.0, q.1, &format!("grid point {} (n={}) nudged inwards", idx, nseg), "nested::grid", &case) {
        return Some(v);
      }
    }
  }
  None
}

pub fn check_bad_hash(depth: u8, h: u64) -> Vec<Viol> {
  let mut out = vec![];
  let layer = nested::get_or_create(depth);
  let mut t = |api: &str, accepted: bool| {
    if accepted {
      out.push(Viol { api: api.into(), kind: "out-of-range-accepted".into(), case: json!({"kind": "badhash", "depth": depth, "hash": h.to_string()}), expected: "panic (hash >= 12*4^depth)".into(), actual: "returned a value".into() });
    }
  };
  t("nested::center", guarded(move || nested::center(depth, h)).is_ok());
  t("nested::sph_coo", guarded(move || nested::sph_coo(depth, h, 0.5, 0.5)).is_ok());
  t("nested::vertices", guarded(move || nested::vertices(depth, h)).is_ok());
  t("Layer::vertex", guarded(move || layer.vertex(h, Cardinal::N)).is_ok());
  t("Layer::vertices_map", guarded(move || layer.vertices_map(h, CardinalSet::all()).get(Cardinal::S).is_some()).is_ok());
  t("nested::path_along_cell_side", guarded(move || nested::path_along_cell_side(depth, h, &Cardinal::S, &Cardinal::E, true, 2)).is_ok());
  t("nested::path_along_cell_edge", guarded(move || nested::path_along_cell_edge(depth, h, &Cardinal::S, false, 2)).is_ok());
  t("nested::grid", guarded(move || nested::grid(depth, h, 2)).is_ok());
  t("Layer::center_of_projected_cell", guarded(move || layer.center_of_projected_cell(h)).is_ok());
  // "rejected" holds for EVERY value of the other arguments: their small domains in full,
  // degenerate values included (no segment, empty direction set, same vertex twice)
  let card = |k: u8| Cardinal::from_index(k);
  for n in [0u32, 1, 2, 5] {
    for c in 0..4u8 {
      for cw in [false, true] {
        t("nested::path_along_cell_edge", guarded(move || nested::path_along_cell_edge(depth, h, &card(c), cw, n)).is_ok());
      }
      for c2 in 0..4u8 {
        for incl in [false, true] {
          t("nested::path_along_cell_side", guarded(move || nested::path_along_cell_side(depth, h, &card(c), &card(c2), incl, n)).is_ok());
        }
      }
    }
    t("nested::grid", guarded(move || nested::grid(depth, h, n as u16)).is_ok());
  }
  for mask in 0..16u8 {
    let mut set = CardinalSet::new();
    for k in 0..4u8 {
      if mask >> k & 1 == 1 {
        set.set(card(k), true);
      }
    }
    t("Layer::vertices_map", guarded(move || layer.vertices_map(h, set).get(Cardinal::S).is_some()).is_ok());
  }
  for c in 0..4u8 {
    t("Layer::vertex", guarded(move || layer.vertex(h, card(c))).is_ok());
  }
  for (dx, dy) in [(0.0, 0.0), (1.0, 1.0), (0.0, 1.0), (0.25, 0.75)] {
    t("nested::sph_coo", guarded(move || nested::sph_coo(depth, h, dx, dy)).is_ok());
  }
  out
}

/// hash_with_dxdy on one (depth, position).
pub fn check_pos(depth: u8, lon: f64, lat: f64, part: &mut Part) -> Option<Viol> {
  let case = pos_case(depth, lon, lat);
  journal("nested position accessors", || case.clone());
  let (h, dx, dy) = match guarded(move || nested::hash_with_dxdy(depth, lon, lat)) {
    Ok(v) => v,
    Err(m) => viol!("nested::hash_with_dxdy", "panic-in-domain", case, "(hash, dx, dy)".into(), m),
  };
  part.outcome(hash64(&[depth as u64, h]));
  if h >= n_hash(depth) {
    viol!("nested::hash_with_dxdy", "out-of-range", case, format!("h < {}", n_hash(depth)), format!("h = {}", h));
  }
  let (rx, ry) = ref_proj(lon, lat);
  let o = outside(depth, h, rx, ry);
  part.validated += 1;
  if !(o <= TOL_PLANE) {
    viol!("nested::hash_with_dxdy", "not-contained", case, "a cell containing the position".into(), format!("cell {} (dx={:e}, dy={:e}), {:e} plane units (= {:e} cells) away", h, dx, dy, o, o * nside(depth) as f64));
  }
  let eps = offs_eps(depth);
  if !(dx.is_finite() && dy.is_finite() && dx >= -eps && dx <= 1.0 + eps && dy >= -eps && dy <= 1.0 + eps) {
    viol!("nested::hash_with_dxdy", "offsets-out-of-range", case, format!("finite offsets in [0, 1] (+- {:e})", eps), format!("cell {} dx = {:e}, dy = {:e}", h, dx, dy));
  }
  // the position is recovered from (h, dx, dy)
  let (px, py) = plane_of_offsets(depth, h, dx, dy);
  let (l2, b2) = ref_unproj(px, py.max(-2.0).min(2.0));
  let ad = ang_dist(lon, lat, l2, b2);
  part.validated += 1;
  if !(ad <= TOL_ANG) {
    viol!("nested::hash_with_dxdy", "offsets-inconsistent", case, format!("position recovered from (cell, dx, dy) within {:e} rad", TOL_ANG), format!("cell {} dx = {:e} dy = {:e} -> ({:e}, {:e}), {:e} rad away", h, dx, dy, l2, b2, ad));
  }
  // agreement with hash, unless on a border
  let hh = match guarded(move || nested::hash(depth, lon, lat)) {
    Ok(v) => v,
    Err(m) => viol!("nested::hash", "panic-in-domain", case, "a cell".into(), m),
  };
  if hh != h && !(o >= -TOL_PLANE) {
    viol!("nested::hash_with_dxdy", "differs-from-hash", case, format!("cell {} given by hash (the position is {:e} inside cell {}, not on its border)", hh, -o, h), format!("cell {}", h));
  }
  // sph_coo inverts it whenever both offsets are in [0, 1[
  if dx >= 0.0 && dx < 1.0 && dy >= 0.0 && dy < 1.0 {
    match guarded(move || nested::sph_coo(depth, h, dx, dy)) {
      Ok((l3, b3)) => {
        let ad = ang_dist(lon, lat, l3, b3);
        part.validated += 1;
        if !(ad <= TOL_ANG) {
          viol!("nested::sph_coo(hash_with_dxdy)", "round-trip", case, format!("the position within {:e} rad", TOL_ANG), format!("({:e}, {:e}), {:e} rad away (cell {} dx {:e} dy {:e})", l3, b3, ad, h, dx, dy));
        }
      }
      Err(m) => viol!("nested::sph_coo(hash_with_dxdy)", "panic-in-domain", case, "a position".into(), m),
    }
  }
  None
}

pub fn run(ctx: &Ctx) -> i32 {
  let quick = ctx.quick();
  let d_exh: u8 = if quick { 5 } else { 8 };
  enum Job {
    Cells(u8, u64, u64),
    Class(u8),
    Nodes(usize, usize),
  }
  let mut jobs = vec![];
  for d in 0..=d_exh {
    let nh = n_hash(d);
    let step = 256u64;
    let mut lo = 0;
    while lo < nh {
      jobs.push(Job::Cells(d, lo, (lo + step).min(nh)));
      lo += step;
    }
  }
  for d in (d_exh + 1)..=29 {
    jobs.push(Job::Class(d));
  }
  // positions for hash_with_dxdy
  let b = if quick { 3 } else { 6 };
  let mut nodes: Vec<((f64, f64), bool)> = plane_nodes(b).into_iter().map(|p| (p, false)).collect();
  let border_depths: Vec<u8> = if quick { vec![0, 1, 2, 3, 4, 6, 8, 11, 14, 17, 20, 23, 26, 28, 29] } else { (0..30).collect() };
  for &d in &border_depths {
    for p in deep_border_nodes(d) {
      nodes.push((p, true));
    }
  }
  for &(lon, lat) in generic_points().iter().chain(fibonacci_points(if quick { 1000 } else { 20_000 }).iter()) {
    nodes.push((ref_proj(lon, lat), true));
  }
  let chunk = 128;
  let mut lo = 0;
  while lo < nodes.len() {
    jobs.push(Job::Nodes(lo, (lo + chunk).min(nodes.len())));
    lo += chunk;
  }
  let deep_turns: Vec<f64> = if quick { vec![0.0] } else { vec![0.0, -1.0, 3.0] };
  let mut total = par_jobs(jobs.len(), |j| {
    let mut part = Part::new();
    if ctx.over_budget() {
      part.caps.push(format!("wall budget {}s reached in C03 enumeration", ctx.budget_s));
      return part;
    }
    match &jobs[j] {
      Job::Cells(d, lo, hi) => {
        for h in *lo..*hi {
          part.stratum("all-cells", 1, 150);
          if let Some(v) = check_cell(*d, h, &mut part) {
            part.viol(v);
          }
        }
      }
      Job::Class(d) => {
        let mut cells = class_cells(*d);
        cells.extend(carry_cells(*d, false));
        if *d == 20 {
          cells.extend(halfword_sweep_cells(*d).into_iter().step_by(if ctx.quick() { 64 } else { 8 }));
        }
        for &h in &cells {
          part.stratum("border-class-cells", 1, 150);
          if let Some(v) = check_cell(*d, h, &mut part) {
            part.viol(v);
          }
        }
        if *d == 29 {
          part.sample(json!({"depth": d, "hash": cells[cells.len() / 2].to_string(), "center": format!("{:?}", nested::center(*d, cells[cells.len() / 2]))}));
        }
      }
      Job::Nodes(lo, hi) => {
        for idx in *lo..*hi {
          let ((px, py), deep) = nodes[idx];
          let (lon0, lat0) = ref_unproj(px, py);
          let (k, turns): (i32, &[f64]) = if deep { (1, &deep_turns) } else { (2, &TURNS_ALL) };
          for (lon1, lat) in nudged(lon0, lat0, k) {
            if lat.abs() > HALF_PI {
              continue;
            }
            for &t in turns {
              let lon = lon1 + t * TWO_PI;
              part.stratum(if deep { "positions-deep-border" } else { "positions-lattice" }, 30, 90);
              for depth in 0..30u8 {
                if let Some(v) = check_pos(depth, lon, lat, &mut part) {
                  part.viol(v);
                }
              }
            }
          }
          if idx % 503 == (ctx.seed.rem_euclid(503)) as usize {
            part.sample(json!({"lon": lon0, "lat": lat0, "hash_with_dxdy@12": format!("{:?}", guarded(move || nested::hash_with_dxdy(12, lon0, lat0)))}));
          }
        }
      }
    }
    part
  });
  // exponent sweep around the critical parallels / meridians (hash_with_dxdy, all depths)
  {
    let mut pos = exponent_sweep_positions();
    pos.extend(degree_positions()); // "round" user values: integer degrees
    let chunk = 128usize;
    let sweep = par_jobs((pos.len() + chunk - 1) / chunk, |job| {
      let mut part = Part::new();
      for &(lon, lat) in &pos[job * chunk..((job + 1) * chunk).min(pos.len())] {
        for d in 0..30u8 {
          part.stratum("exponent-sweep", 1, 3);
          if let Some(v) = check_pos(d, lon, lat, &mut part) {
            part.viol(v);
          }
        }
      }
      part
    });
    total.merge(sweep);
  }
  for d in 0..30u8 {
    let nh = n_hash(d);
    let _ = nh;
    for h in out_of_range_hashes(d) {
      total.stratum("out-of-range", 1, 9);
      for v in check_bad_hash(d, h) {
        total.viol(v);
      }
    }
  }
  finish(
    ctx,
    total,
    json!({"exhaustive_depths": format!("0..={}", d_exh), "class_depths": format!("{}..=29", d_exh + 1),
      "per_cell": "centre, 5x5 interior offsets, 4 vertices x 4 accessors, edge paths (n=1,3,4 x 2 directions x 4 starts), grids (n=1,4)",
      "positions": format!("plane lattice 2^-{} with 5x5 ulp nudges and 7 turns + border classes of depths {:?} (3x3 nudges) + Fibonacci-lattice points, x 30 depths", b, border_depths)}),
    "all cells of the exhaustive depths and the border-class cells of deeper depths for the cell-level accessors; all alphabet positions x 30 depths for hash_with_dxdy",
    vec!["reference projection R1 and lattice model R2".into(), "inward nudges of 1e-3 of the cell half-diagonal for border points".into()],
    Map::new(),
  )
}

pub fn replay(case: &Value) -> Option<Viol> {
  let mut part = Part::new();
  let depth = case["depth"].as_u64().unwrap() as u8;
  match case["kind"].as_str().unwrap_or("") {
    "cell" => check_cell(depth, u64_from_json(&case["hash"]), &mut part),
    "badhash" => check_bad_hash(depth, u64_from_json(&case["hash"])).into_iter().next(),
    _ => check_pos(depth, f64_from_json(&case["lon"]), f64_from_json(&case["lat"]), &mut part),
  }
}
