//! C17: projection / de-projection / base cell from projected coordinates -- shape S.

use crate::alpha::*;
use crate::refm::*;
use crate::report::*;
use serde_json::{json, Map, Value};

const TOL_RT: f64 = 1e-14;

fn case_pos(lon: f64, lat: f64) -> Value {
  json!({"lon": f64_json(lon), "lat": f64_json(lat)})
}
fn case_xy(x: f64, y: f64) -> Value {
  json!({"x": f64_json(x), "y": f64_json(y)})
}

/// distance in the plane between (x, y) and the closest image of the reference point
fn plane_dist_to_images(x: f64, y: f64, rx: f64, ry: f64) -> f64 {
  let (imgs, k) = images(rx, ry);
  let mut best = f64::INFINITY;
  for &(xi, yi) in &imgs[..k] {
    let d = wrap8(x - xi).abs().max((y - yi).abs());
    if d < best {
      best = d;
    }
  }
  best
}

fn wrap_2pi(d: f64) -> f64 {
  let mut d = d % TWO_PI;
  if d > PI {
    d -= TWO_PI;
  } else if d < -PI {
    d += TWO_PI;
  }
  d
}

pub fn check_pos(lon: f64, lat: f64, part: &mut Part) -> Option<Viol> {
  let r = guarded(move || cdshealpix::proj(lon, lat));
  let (x, y) = match r {
    Ok(v) => v,
    Err(m) => return Some(Viol { api: "proj".into(), kind: "panic-in-domain".into(), case: case_pos(lon, lat), expected: "(x, y)".into(), actual: m }),
  };
  part.outcome(hash64(&[x.to_bits(), y.to_bits()]));
  let mk = |api: &str, kind: &str, expected: String, actual: String| Some(Viol { api: api.into(), kind: kind.into(), case: case_pos(lon, lat), expected, actual });
  if !(x.abs() <= 8.0 && y.abs() <= 2.0) {
    return mk("proj", "out-of-range", "|x| <= 8 and |y| <= 2".into(), format!("({:e}, {:e})", x, y));
  }
  if x * lon < -1e-15 {
    return mk("proj", "wrong-sign", "x has the sign of the longitude".into(), format!("x = {:e} for lon = {:e}", x, lon));
  }
  let (rx, ry) = ref_proj(lon, lat);
  let d = plane_dist_to_images(x, y, rx, ry);
  part.validated += 1;
  if !(d <= TOL_PLANE) {
    return mk("proj", "differs-from-reference", format!("({:e}, {:e}) (Calabretta & Roukema formulae), within {:e}", rx, ry, TOL_PLANE), format!("({:e}, {:e}), off by {:e}", x, y, d));
  }
  // unproj o proj
  match guarded(move || cdshealpix::unproj(x, y)) {
    Err(m) => return mk("unproj", "panic-in-domain", "a position".into(), format!("unproj({:e}, {:e}) panics: {}", x, y, m)),
    Ok((l2, b2)) => {
      let dl = wrap_2pi(l2 - lon).abs() * lat.cos().abs().max(b2.cos().abs());
      let db = (b2 - lat).abs();
      let ad = ang_dist(lon, lat, l2, b2);
      part.validated += 1;
      if !(dl <= TOL_RT && db <= TOL_RT && ad <= TOL_RT) {
        return mk("unproj(proj)", "round-trip", format!("the position within {:e} rad", TOL_RT), format!("({:e}, {:e}): dlon*cos(lat) = {:e}, dlat = {:e}, angular distance = {:e}", l2, b2, dl, db, ad));
      }
    }
  }
  // base cell
  match guarded(move || cdshealpix::base_cell_from_proj_coo(x, y)) {
    Err(m) => return mk("base_cell_from_proj_coo", "panic-in-domain", "a base cell".into(), format!("({:e}, {:e}) panics: {}", x, y, m)),
    Ok(b) => {
      part.validated += 1;
      if b >= 12 {
        return mk("base_cell_from_proj_coo", "out-of-range", "a base cell in 0..12".into(), format!("{} for ({:e}, {:e})", b, x, y));
      }
      let o = outside(0, b as u64, rx, ry);
      if !(o <= TOL_PLANE) {
        return mk("base_cell_from_proj_coo", "wrong-base-cell", "the depth-0 cell containing the position".into(), format!("{} for ({:e}, {:e}), which is {:e} outside that cell", b, x, y, o));
      }
    }
  }
  None
}

pub fn check_xy(x: f64, y: f64, part: &mut Part) -> Option<Viol> {
  let mk = |api: &str, kind: &str, expected: String, actual: String| Some(Viol { api: api.into(), kind: kind.into(), case: case_xy(x, y), expected, actual });
  let (lon, lat) = match guarded(move || cdshealpix::unproj(x, y)) {
    Ok(v) => v,
    Err(m) => return mk("unproj", "panic-in-domain", "a position".into(), m),
  };
  if !(lat.abs() <= HALF_PI && lon.is_finite()) {
    return mk("unproj", "out-of-range", "lat in [-pi/2, pi/2], finite lon".into(), format!("({:e}, {:e})", lon, lat));
  }
  part.outcome(hash64(&[lon.to_bits(), lat.to_bits()]));
  let (x2, y2) = match guarded(move || cdshealpix::proj(lon, lat)) {
    Ok(v) => v,
    Err(m) => return mk("proj(unproj)", "panic-in-domain", "(x, y)".into(), m),
  };
  let d = plane_dist_to_images(x2, y2, x.rem_euclid(8.0), y);
  part.validated += 1;
  if !(d <= TOL_PLANE) {
    return mk("proj(unproj)", "round-trip", format!("({:e}, {:e}) within {:e}", x, y, TOL_PLANE), format!("({:e}, {:e}) via position ({:e}, {:e}), off by {:e}", x2, y2, lon, lat, d));
  }
  // the reference de-projection agrees
  let (rl, rb) = ref_unproj(x, y);
  let ad = ang_dist(lon, lat, rl, rb);
  if !(ad <= 1e-13) {
    return mk("unproj", "differs-from-reference", format!("({:e}, {:e})", rl, rb), format!("({:e}, {:e}), angular distance {:e}", lon, lat, ad));
  }
  None
}

fn check_rejections(part: &mut Part) {
  let bad_lat = [next_up(HALF_PI), -next_up(HALF_PI), 1.6, -1.6, 3.0, f64::INFINITY, f64::NEG_INFINITY, f64::NAN];
  let bad_y = [next_up(2.0), -next_up(2.0), 2.5, -2.5, 100.0, f64::INFINITY, f64::NEG_INFINITY, f64::NAN];
  let xs = [0.0, 0.5, -0.5, 1.0, 3.9, -7.0, 8.0];
  for &l in &bad_lat {
    for &lon in &xs {
      part.stratum("out-of-domain", 1, 1);
      if let Ok(v) = guarded(move || cdshealpix::proj(lon, l)) {
        part.viol(Viol { api: "proj".into(), kind: "out-of-domain-accepted".into(), case: case_pos(lon, l), expected: "panic".into(), actual: format!("{:?}", v) });
      }
    }
  }
  for &y in &bad_y {
    for &x in &xs {
      part.stratum("out-of-domain", 1, 1);
      if let Ok(v) = guarded(move || cdshealpix::unproj(x, y)) {
        part.viol(Viol { api: "unproj".into(), kind: "out-of-domain-accepted".into(), case: case_xy(x, y), expected: "panic".into(), actual: format!("{:?}", v) });
      }
    }
  }
}

pub fn run(ctx: &Ctx) -> i32 {
  let b: u32 = if ctx.quick() { 5 } else { 8 };
  let mut nodes = plane_nodes(b);
  for d in [1u8, 2, 5, 10, 20, 29] {
    nodes.extend(deep_border_nodes(d));
  }
  for &(lon, lat) in generic_points().iter().chain(fibonacci_points(if ctx.quick() { 3000 } else { 100_000 }).iter()) {
    nodes.push(ref_proj(lon, lat));
  }
  let n_nodes = nodes.len();
  let chunk = 256usize;
  let njobs = (n_nodes + chunk - 1) / chunk;
  let mut total = par_jobs(njobs, |job| {
    let mut part = Part::new();
    if ctx.over_budget() {
      part.caps.push(format!("wall budget {}s reached in C17 enumeration", ctx.budget_s));
      return part;
    }
    for idx in (job * chunk)..((job + 1) * chunk).min(n_nodes) {
      let (px, py) = nodes[idx];
      let (lon0, lat0) = ref_unproj(px, py);
      for (lon1, lat) in nudged(lon0, lat0, 2) {
        if lat.abs() > HALF_PI {
          continue;
        }
        for &t in TURNS_ALL.iter() {
          let lon = lon1 + t * TWO_PI;
          part.stratum(if t == 0.0 { "positions" } else { "positions-turns" }, 1, 3);
          if let Some(v) = check_pos(lon, lat, &mut part) {
            part.viol(v);
          }
        }
      }
      // plane points: the node, its +-8 / negative-x versions, ulp nudges
      for sx in [0.0, -8.0] {
        for a in -1..=1 {
          for c in -1..=1 {
            let x = nudge(px + sx, a);
            let y = nudge(py, c);
            if y.abs() > 2.0 || x.abs() > 8.0 {
              continue;
            }
            part.stratum("plane-points", 1, 2);
            if let Some(v) = check_xy(x, y, &mut part) {
              part.viol(v);
            }
          }
        }
      }
      if idx % 1013 == (ctx.seed.rem_euclid(1013)) as usize {
        part.sample(json!({"lon": lon0, "lat": lat0, "plane": [px, py]}));
      }
    }
    part
  });
  let (_, lit_floats) = source_literals();
  let mut extra_pos: Vec<(f64, f64)> = degree_positions();
  for &x in &lit_floats {
    for s in [-1.0, 1.0] {
      if (s * x).abs() <= HALF_PI {
        extra_pos.push((0.31, s * x));
        extra_pos.push((s * x, 0.2));
      }
    }
  }
  for (lon, lat) in extra_pos {
    total.stratum("degrees-and-source-literals", 1, 3);
    if let Some(v) = check_pos(lon, lat, &mut total) {
      total.viol(v);
    }
  }
  for (lon, lat) in exponent_sweep_positions() {
    total.stratum("exponent-sweep", 1, 3);
    if let Some(v) = check_pos(lon, lat, &mut total) {
      total.viol(v);
    }
    // the same magnitudes as plane coordinates
    let (x, y) = (lon * 4.0 / PI, (lat * 4.0 / PI).max(-2.0).min(2.0));
    // (only points of the HEALPix domain: in the polar caps, |x - facet centre| <= 2 - |y|)
    let xc = 2.0 * (x / 2.0).floor() + 1.0;
    if y.abs() <= 1.0 || (x - xc).abs() <= 2.0 - y.abs() {
      total.stratum("exponent-sweep", 1, 2);
      if let Some(v) = check_xy(x, y, &mut total) {
        total.viol(v);
      }
    }
  }
  check_rejections(&mut total);
  finish(
    ctx,
    total,
    json!({"plane_lattice_bits": b, "nodes": n_nodes, "ulp_nudges_positions": "5x5", "turns": TURNS_ALL, "plane_points": "each node at x and x-8, 3x3 ulp nudges",
      "deep_border_depths": [1, 2, 5, 10, 20, 29]}),
    "all lattice nodes of the projection plane (and border classes of 6 depths) as positions with nudges and turns, and as plane points; rejection of out-of-domain arguments",
    vec!["reference projection R1 (Calabretta & Roukema 2007 formulae) in refm.rs; any image of a seam point / pole is accepted".into(),
      "round trip judged by |dlat|, |dlon| cos(lat) and the angular distance (a longitude is not recoverable at a pole)".into()],
    Map::new(),
  )
}

pub fn replay(case: &Value) -> Option<Viol> {
  let mut part = Part::new();
  if case.get("lon").is_some() {
    let lon = f64_from_json(&case["lon"]);
    let lat = f64_from_json(&case["lat"]);
    if !(lat.abs() <= HALF_PI) {
      return guarded(move || cdshealpix::proj(lon, lat)).ok().map(|v| Viol { api: "proj".into(), kind: "out-of-domain-accepted".into(), case: case.clone(), expected: "panic".into(), actual: format!("{:?}", v) });
    }
    check_pos(lon, lat, &mut part)
  } else {
    let x = f64_from_json(&case["x"]);
    let y = f64_from_json(&case["y"]);
    if !(y.abs() <= 2.0) {
      return guarded(move || cdshealpix::unproj(x, y)).ok().map(|v| Viol { api: "unproj".into(), kind: "out-of-domain-accepted".into(), case: case.clone(), expected: "panic".into(), actual: format!("{:?}", v) });
    }
    check_xy(x, y, &mut part)
  }
}
