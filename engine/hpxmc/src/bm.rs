//! R4: reference model of a BMOC = map from deepest-level cells to {absent, partial, full},
//! represented as sorted disjoint ranges (at the resolution of depth_max) carrying a state.
//! Independent of the subject: raw values are decoded here from the documented bit layout.

use cdshealpix::nested::bmoc::{BMOCBuilderUnsafe, BMOC};

pub const PARTIAL: u8 = 1;
pub const FULL: u8 = 2;

/// One entry of a BMOC: (depth, hash, is_full).
pub type Entry = (u8, u64, bool);

#[derive(Clone, Debug, PartialEq, Eq, Hash, PartialOrd, Ord)]
pub struct Bm {
  pub depth_max: u8,
  pub entries: Vec<Entry>,
}

/// Sorted, disjoint, merged ranges (start, end, state), absent implicit, at depth `depth`.
#[derive(Clone, Debug, PartialEq, Eq)]
pub struct RangeMap {
  pub depth: u8,
  pub ranges: Vec<(u64, u64, u8)>,
}

pub fn n_hash(depth: u8) -> u64 {
  12u64 << (2 * depth as u32)
}

impl Bm {
  pub fn new(depth_max: u8, entries: Vec<Entry>) -> Bm {
    Bm { depth_max, entries }
  }

  /// Build the subject's BMOC from the entries (through the public unsafe builder).
  pub fn to_impl(&self) -> BMOC {
    let mut b = BMOCBuilderUnsafe::new(self.depth_max, self.entries.len().max(1));
    for &(d, h, f) in &self.entries {
      b.push(d, h, f);
    }
    b.to_bmoc()
  }

  /// Decode the subject's BMOC from its raw values (documented layout: hash, sentinel bit,
  /// 2 * (depth_max - depth) zero bits, flag bit).
  pub fn from_impl(b: &BMOC) -> Bm {
    let dm = b.get_depth_max();
    let entries = b.entries.iter().map(|&raw| decode_raw(raw, dm)).collect();
    Bm { depth_max: dm, entries }
  }

  /// Validate (well-formedness, C09) and convert to the range model.
  pub fn to_map(&self) -> Result<RangeMap, String> {
    let dm = self.depth_max;
    if dm > 29 {
      return Err(format!("depth_max {} > 29", dm));
    }
    let mut ranges: Vec<(u64, u64, u8)> = Vec::with_capacity(self.entries.len());
    let mut prev_end = 0u64;
    for (k, &(d, h, f)) in self.entries.iter().enumerate() {
      if d > dm {
        return Err(format!("entry {}: depth {} > depth_max {}", k, d, dm));
      }
      if h >= n_hash(d) {
        return Err(format!("entry {}: hash {} >= 12*4^{}", k, h, d));
      }
      let sh = 2 * (dm - d) as u32;
      let (s, e) = (h << sh, (h + 1) << sh);
      if k > 0 && s < prev_end {
        return Err(format!("entry {} ({}/{}) not after the previous one (overlap or wrong order)", k, d, h));
      }
      prev_end = e;
      let st = if f { FULL } else { PARTIAL };
      if let Some(last) = ranges.last_mut() {
        if last.1 == s && last.2 == st {
          last.1 = e;
          continue;
        }
      }
      ranges.push((s, e, st));
    }
    Ok(RangeMap { depth: dm, ranges })
  }

  pub fn all_full(&self) -> bool {
    self.entries.iter().all(|e| e.2)
  }

  pub fn describe(&self) -> String {
    let cells: Vec<String> = self.entries.iter().take(40).map(|&(d, h, f)| format!("{}/{}{}", d, h, if f { "" } else { "p" })).collect();
    format!("{{depth_max {}: [{}{}]}}", self.depth_max, cells.join(" "), if self.entries.len() > 40 { " ..." } else { "" })
  }

  pub fn to_json(&self) -> serde_json::Value {
    serde_json::json!({
      "depth_max": self.depth_max,
      "entries": self.entries.iter().map(|&(d, h, f)| serde_json::json!([d, h.to_string(), f])).collect::<Vec<_>>(),
    })
  }

  pub fn from_json(v: &serde_json::Value) -> Bm {
    let dm = v["depth_max"].as_u64().unwrap() as u8;
    let entries = v["entries"]
      .as_array()
      .unwrap()
      .iter()
      .map(|e| (e[0].as_u64().unwrap() as u8, crate::report::u64_from_json(&e[1]), e[2].as_bool().unwrap()))
      .collect();
    Bm { depth_max: dm, entries }
  }
}

pub fn decode_raw(raw: u64, depth_max: u8) -> Entry {
  let flag = raw & 1 == 1;
  let tz = (raw >> 1).trailing_zeros();
  let dd = (tz / 2) as u8;
  let hash = raw >> (2 + 2 * dd as u32);
  (depth_max.wrapping_sub(dd), hash, flag)
}

pub fn encode_raw(e: Entry, depth_max: u8) -> u64 {
  let (d, h, f) = e;
  (((h << 1) | 1) << (1 + 2 * (depth_max - d) as u32)) | (f as u64)
}

impl RangeMap {
  pub fn at_depth(&self, depth: u8) -> RangeMap {
    assert!(depth >= self.depth);
    let sh = 2 * (depth - self.depth) as u32;
    RangeMap { depth, ranges: self.ranges.iter().map(|&(s, e, st)| (s << sh, e << sh, st)).collect() }
  }

  fn combine(&self, other: &RangeMap, f: impl Fn(u8, u8) -> u8) -> RangeMap {
    let depth = self.depth.max(other.depth);
    let a = self.at_depth(depth);
    let b = other.at_depth(depth);
    let end = n_hash(depth);
    // breakpoints
    let mut pts: Vec<u64> = Vec::with_capacity(2 * (a.ranges.len() + b.ranges.len()) + 2);
    pts.push(0);
    pts.push(end);
    for r in a.ranges.iter().chain(b.ranges.iter()) {
      pts.push(r.0);
      pts.push(r.1);
    }
    pts.sort();
    pts.dedup();
    let mut out: Vec<(u64, u64, u8)> = Vec::new();
    let (mut ia, mut ib) = (0usize, 0usize);
    for w in pts.windows(2) {
      let (s, e) = (w[0], w[1]);
      while ia < a.ranges.len() && a.ranges[ia].1 <= s {
        ia += 1;
      }
      while ib < b.ranges.len() && b.ranges[ib].1 <= s {
        ib += 1;
      }
      let sa = if ia < a.ranges.len() && a.ranges[ia].0 <= s { a.ranges[ia].2 } else { 0 };
      let sb = if ib < b.ranges.len() && b.ranges[ib].0 <= s { b.ranges[ib].2 } else { 0 };
      let st = f(sa, sb);
      if st == 0 {
        continue;
      }
      if let Some(last) = out.last_mut() {
        if last.1 == s && last.2 == st {
          last.1 = e;
          continue;
        }
      }
      out.push((s, e, st));
    }
    RangeMap { depth, ranges: out }
  }

  pub fn not(&self) -> RangeMap {
    let empty = RangeMap { depth: self.depth, ranges: vec![] };
    // absent -> full, full -> absent, partial -> partial
    self.combine(&empty, |a, _| match a {
      0 => FULL,
      PARTIAL => PARTIAL,
      _ => 0,
    })
  }
  pub fn and(&self, o: &RangeMap) -> RangeMap {
    self.combine(o, |a, b| a.min(b))
  }
  pub fn or(&self, o: &RangeMap) -> RangeMap {
    self.combine(o, |a, b| a.max(b))
  }
  pub fn xor(&self, o: &RangeMap) -> RangeMap {
    self.combine(o, |a, b| match (a, b) {
      (0, x) | (x, 0) => x,
      (FULL, FULL) => 0,
      _ => PARTIAL,
    })
  }

  /// Canonical (packed) entry list of a MOC (every state must be FULL): greedy maximal cells.
  pub fn canonical_moc(&self) -> Vec<Entry> {
    let dm = self.depth;
    let mut out = vec![];
    for &(s0, e, st) in &self.ranges {
      assert_eq!(st, FULL);
      let mut s = s0;
      while s < e {
        let mut k = 0u32; // cell of depth dm - k
        while (k as u8) < dm {
          let size = 1u64 << (2 * (k + 1));
          if s % size == 0 && s + size <= e {
            k += 1;
          } else {
            break;
          }
        }
        out.push((dm - k as u8, s >> (2 * k), true));
        s += 1u64 << (2 * k);
      }
    }
    out
  }

  pub fn n_deep(&self) -> u64 {
    self.ranges.iter().map(|r| r.1 - r.0).sum()
  }

  pub fn describe(&self) -> String {
    let v: Vec<String> = self.ranges.iter().take(30).map(|&(s, e, st)| format!("[{},{}){}", s, e, if st == FULL { "F" } else { "P" })).collect();
    format!("depth {}: {}{}", self.depth, v.join(" "), if self.ranges.len() > 30 { " ..." } else { "" })
  }

  /// Is there a group of four FULL sibling cells listed individually in `bm`? (packed <=> none)
  pub fn has_four_full_siblings(bm: &Bm) -> Option<Entry> {
    let es = &bm.entries;
    for k in 0..es.len().saturating_sub(3) {
      let (d, h, f) = es[k];
      if d > 0 && f && h & 3 == 0 {
        if es[k + 1] == (d, h + 1, true) && es[k + 2] == (d, h + 2, true) && es[k + 3] == (d, h + 3, true) {
          return Some(es[k]);
        }
      }
    }
    None
  }
}

/// Agreement of all the views of a BMOC handed to the user (C09). `expand_limit`: maximal deep
/// size for which the flattened iterators are expanded.
pub fn check_views(b: &BMOC, expand_limit: u64) -> Result<(), String> {
  let bm = Bm::from_impl(b);
  let map = bm.to_map().map_err(|e| format!("malformed: {}", e))?;
  let dm = bm.depth_max;
  // into_iter cells = decoded entries
  let cells: Vec<(u8, u64, bool, u64)> = b.into_iter().map(|c| (c.depth, c.hash, c.is_full, c.raw_value)).collect();
  if cells.len() != bm.entries.len() {
    return Err(format!("into_iter yields {} cells for {} entries", cells.len(), bm.entries.len()));
  }
  for (k, c) in cells.iter().enumerate() {
    let e = bm.entries[k];
    if (c.0, c.1, c.2) != e || c.3 != b.entries[k] || encode_raw(e, dm) != b.entries[k] {
      return Err(format!("into_iter cell {} = {:?} differs from the entry {:?} (raw {})", k, c, e, b.entries[k]));
    }
  }
  let n = map.n_deep();
  let ds = b.deep_size() as u64;
  if ds != n {
    return Err(format!("deep_size = {} but the entries cover {} deepest cells", ds, n));
  }
  // ranges
  let rs = b.to_ranges();
  let mut merged: Vec<(u64, u64)> = vec![];
  for &(s, e, _) in &map.ranges {
    if let Some(l) = merged.last_mut() {
      if l.1 == s {
        l.1 = e;
        continue;
      }
    }
    merged.push((s, e));
  }
  let got: Vec<(u64, u64)> = rs.iter().map(|r| (r.start, r.end)).collect();
  if got != merged {
    return Err(format!("to_ranges = {:?} but the cells form {:?}", &got[..got.len().min(12)], &merged[..merged.len().min(12)]));
  }
  if n > expand_limit {
    return Ok(());
  }
  // flattened views
  let mut it = b.flat_iter();
  if it.deep_size() as u64 != n || it.depth() != dm || it.size_hint() != (n as usize, Some(n as usize)) {
    return Err(format!("flat_iter deep_size/depth/size_hint = {}/{}/{:?}, expected {}/{}", it.deep_size(), it.depth(), it.size_hint(), n, dm));
  }
  let mut flat: Vec<u64> = Vec::with_capacity(n as usize);
  let mut guard = 0u64;
  while let Some(h) = it.next() {
    flat.push(h);
    guard += 1;
    if guard > n + 8 {
      return Err("flat_iter yields more cells than deep_size".into());
    }
    let rem = (n as usize).wrapping_sub(flat.len());
    if guard <= n && it.size_hint() != (rem, Some(rem)) {
      return Err(format!("flat_iter size_hint {:?} after {} items, expected {}", it.size_hint(), flat.len(), rem));
    }
  }
  let mut expected: Vec<u64> = Vec::with_capacity(n as usize);
  let mut states: Vec<u8> = Vec::with_capacity(n as usize);
  for &(s, e, st) in &map.ranges {
    for h in s..e {
      expected.push(h);
      states.push(st);
    }
  }
  if flat != expected {
    return Err(format!("flat_iter = {:?}... but the cells expand to {:?}...", &flat[..flat.len().min(16)], &expected[..expected.len().min(16)]));
  }
  let arr = b.to_flat_array();
  if arr.as_ref() != expected.as_slice() {
    return Err(format!("to_flat_array (len {}) differs from the expansion (len {})", arr.len(), expected.len()));
  }
  let mut itc = b.flat_iter_cell();
  if itc.deep_size() as u64 != n || itc.depth() != dm || itc.size_hint() != (n as usize, Some(n as usize)) {
    return Err(format!("flat_iter_cell deep_size/depth/size_hint = {}/{}/{:?}", itc.deep_size(), itc.depth(), itc.size_hint()));
  }
  let mut k = 0usize;
  // raw value of the entry containing each deep cell
  let mut raw_of: Vec<u64> = Vec::with_capacity(n as usize);
  for (idx, &(d, h, _)) in bm.entries.iter().enumerate() {
    let sh = 2 * (dm - d) as u32;
    for _ in (h << sh)..((h + 1) << sh) {
      raw_of.push(b.entries[idx]);
    }
  }
  while let Some(c) = itc.next() {
    if k >= expected.len() {
      return Err("flat_iter_cell yields more cells than deep_size".into());
    }
    if c.hash != expected[k] || c.depth != dm || c.is_full != (states[k] == FULL) || c.raw_value != raw_of[k] {
      return Err(format!("flat_iter_cell item {} = {:?}, expected hash {} depth {} full {} raw {}", k, c, expected[k], dm, states[k] == FULL, raw_of[k]));
    }
    k += 1;
    let rem = expected.len() - k;
    if itc.size_hint() != (rem, Some(rem)) {
      return Err(format!("flat_iter_cell size_hint {:?} after {} items, expected {}", itc.size_hint(), k, rem));
    }
  }
  if k != expected.len() {
    return Err(format!("flat_iter_cell yields {} cells, expected {}", k, expected.len()));
  }
  Ok(())
}
