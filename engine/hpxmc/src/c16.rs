//! C16: cell-size helper bounds really are bounds -- shape S.

use crate::alpha::*;
use crate::cone::{ref_start_depth, thresholds, KF1, KF1_BAND_LO};
use crate::refm::*;
use crate::report::*;
use serde_json::{json, Map, Value};

const SLACK: f64 = 1e-9; // relative
/// absolute slack: the positions themselves are only known to an ulp of 2 pi (8.9e-16)
const ABS_SLACK: f64 = 2e-15;

/// True distance from the centre of a cell to its farthest vertex (R1 + R2).
pub fn true_c2v(depth: u8, h: u64) -> f64 {
  let n = nside(depth) as f64;
  let (cx, cy) = center_lattice(depth, h);
  let (lc, bc) = ref_unproj(cx as f64 / n, cy as f64 / n);
  let mut best = 0.0f64;
  for (vx, vy) in vertices_lattice(depth, h) {
    let (lv, bv) = ref_unproj(vx as f64 / n, vy as f64 / n);
    best = best.max(ang_dist(lc, bc, lv, bv));
  }
  best
}

fn case1(depth: u8, h: u64, lon: f64, lat: f64) -> Value {
  json!({"claim": 1, "depth": depth, "hash": h.to_string(), "lon": f64_json(lon), "lat": f64_json(lat)})
}

/// claim 1 on one cell: position = centre of the cell.
pub fn check_claim1(depth: u8, h: u64, part: &mut Part) -> Option<Viol> {
  let n = nside(depth) as f64;
  let (cx, cy) = center_lattice(depth, h);
  let (lon, lat) = ref_unproj(cx as f64 / n, cy as f64 / n);
  let truth = true_c2v(depth, h);
  let bound = match guarded(move || cdshealpix::largest_center_to_vertex_distance(depth, lon, lat)) {
    Ok(b) => b,
    Err(m) => return Some(Viol { api: "largest_center_to_vertex_distance".into(), kind: "panic".into(), case: case1(depth, h, lon, lat), expected: "a bound".into(), actual: m }),
  };
  part.validated += 1;
  part.outcome(bound.to_bits());
  // the same position given with a negative / turned longitude
  for turned in [lon - TWO_PI, lon + TWO_PI] {
    match guarded(move || cdshealpix::largest_center_to_vertex_distance(depth, turned, lat)) {
      Ok(b2) if b2 * (1.0 + SLACK) + ABS_SLACK >= truth => {}
      other => {
        return Some(Viol {
          api: "largest_center_to_vertex_distance".into(),
          kind: "not-a-bound".into(),
          case: case1(depth, h, turned, lat),
          expected: format!(">= {:e} (true centre-to-farthest-vertex distance of cell {}/{}; longitude given as {:e})", truth, depth, h, turned),
          actual: format!("{:?}", other),
        })
      }
    }
  }
  if !(bound * (1.0 + SLACK) + ABS_SLACK >= truth) {
    return Some(Viol {
      api: "largest_center_to_vertex_distance".into(),
      kind: "not-a-bound".into(),
      case: case1(depth, h, lon, lat),
      expected: format!(">= {:e} (true centre-to-farthest-vertex distance of cell {}/{})", truth, depth, h),
      actual: format!("{:e} (ratio true/bound = {})", bound, truth / bound),
    });
  }
  None
}

fn case2(depth: u8, lon: f64, lat: f64, r: f64, cell: u64, api: &str) -> Value {
  json!({"claim": 2, "api": api, "depth": depth, "lon": f64_json(lon), "lat": f64_json(lat), "radius": f64_json(r), "cell": cell.to_string()})
}

pub struct C2vTab {
  pub centers: Vec<[f64; 3]>,
  pub c2v: Vec<f64>,
}

pub fn c2v_tab(depth: u8) -> C2vTab {
  let n = nside(depth) as f64;
  let nh = n_hash(depth);
  let mut centers = Vec::with_capacity(nh as usize);
  let mut c2v = Vec::with_capacity(nh as usize);
  for h in 0..nh {
    let (cx, cy) = center_lattice(depth, h);
    let (l, b) = ref_unproj(cx as f64 / n, cy as f64 / n);
    centers.push(unit_vec(l, b));
    c2v.push(true_c2v(depth, h));
  }
  C2vTab { centers, c2v }
}

/// claim 2 on one (depth, position, radius): the bound must cover every cell whose centre lies
/// within the radius of the position.
pub fn check_claim2(depth: u8, lon: f64, lat: f64, r: f64, tab: &C2vTab, part: &mut Part) -> Option<Viol> {
  let b1 = guarded(move || cdshealpix::largest_center_to_vertex_distance_with_radius(depth, lon, lat, r));
  let b2 = guarded(move || cdshealpix::largest_center_to_vertex_distances_with_radius(depth, depth + 1, lon, lat, r));
  let b3 = guarded(move || cdshealpix::largest_center_to_vertex_distances_with_radius(0, depth + 1, lon, lat, r));
  let (b1, b2, b3) = match (b1, b2, b3) {
    (Ok(a), Ok(b), Ok(c)) => (a, b, c),
    (a, b, c) => {
      return Some(Viol { api: "largest_center_to_vertex_distance(s)_with_radius".into(), kind: "panic".into(), case: case2(depth, lon, lat, r, 0, "any"), expected: "bounds".into(), actual: format!("{:?} {:?} {:?}", a.err(), b.err(), c.err()) })
    }
  };
  if b2.len() != 1 || b3.len() != depth as usize + 1 {
    return Some(Viol { api: "largest_center_to_vertex_distances_with_radius".into(), kind: "wrong-length".into(), case: case2(depth, lon, lat, r, 0, "array"), expected: format!("1 and {} values", depth + 1), actual: format!("{} and {}", b2.len(), b3.len()) });
  }
  let bounds = [(b1, "largest_center_to_vertex_distance_with_radius"), (b2[0], "largest_center_to_vertex_distances_with_radius(depth, depth+1)"), (b3[depth as usize], "largest_center_to_vertex_distances_with_radius(0, depth+1)")];
  part.outcome(b1.to_bits());
  let c = unit_vec(lon, lat);
  // worst cell within the radius
  let mut worst: Option<(u64, f64)> = None;
  for (h, cc) in tab.centers.iter().enumerate() {
    if ang_dist_vec(cc, &c) <= r {
      let t = tab.c2v[h];
      if worst.map(|w| t > w.1).unwrap_or(true) {
        worst = Some((h as u64, t));
      }
    }
  }
  if let Some((h, truth)) = worst {
    part.validated += 1;
    for (b, api) in bounds {
      if !(b * (1.0 + SLACK) + ABS_SLACK >= truth) {
        return Some(Viol {
          api: api.into(),
          kind: "not-a-bound".into(),
          case: case2(depth, lon, lat, r, h, api),
          expected: format!(">= {:e} (cell {}/{} has its centre within the radius)", truth, depth, h),
          actual: format!("{:e} (ratio true/bound = {})", b, truth / b),
        });
      }
    }
  }
  None
}


/// claim 2 at any depth, local form: the candidate cells are the cells within `steps` lattice
/// steps of the cell of the position (the subject's own hash, checked by C01), enough for radii of
/// a few cells; the bound must cover every candidate whose centre lies within the radius.
pub fn check_claim2_local(depth: u8, lon: f64, lat: f64, r: f64, steps: usize, part: &mut Part) -> Option<Viol> {
  let c0 = match guarded(move || cdshealpix::nested::hash(depth, lon, lat)) {
    Ok(c) if c < n_hash(depth) => c,
    _ => return None,
  };
  let mut seen: Vec<u64> = vec![c0];
  let mut frontier = vec![c0];
  for _ in 0..steps {
    let mut next = vec![];
    for &h in &frontier {
      for (_, nb) in ref_neighbours(depth, h) {
        if !seen.contains(&nb) {
          seen.push(nb);
          next.push(nb);
        }
      }
    }
    frontier = next;
  }
  let n = nside(depth) as f64;
  let mut worst: Option<(u64, f64)> = None;
  for &h in &seen {
    let (cx, cy) = center_lattice(depth, h);
    let (lc, bc) = ref_unproj(cx as f64 / n, cy as f64 / n);
    if ang_dist(lon, lat, lc, bc) <= r * (1.0 - 1e-9) {
      let t = true_c2v(depth, h);
      if worst.map(|w| t > w.1).unwrap_or(true) {
        worst = Some((h, t));
      }
    }
  }
  let (h, truth) = worst?;
  let from = depth.saturating_sub(3);
  let b1 = guarded(move || cdshealpix::largest_center_to_vertex_distance_with_radius(depth, lon, lat, r));
  let b2 = guarded(move || cdshealpix::largest_center_to_vertex_distances_with_radius(depth, depth + 1, lon, lat, r));
  let b3 = guarded(move || cdshealpix::largest_center_to_vertex_distances_with_radius(from, depth + 1, lon, lat, r));
  let (b1, b2, b3) = match (b1, b2, b3) {
    (Ok(a), Ok(b), Ok(c)) if b.len() == 1 && c.len() == (depth + 1 - from) as usize => (a, b, c),
    (a, b, c) => {
      return Some(Viol { api: "largest_center_to_vertex_distance(s)_with_radius".into(), kind: "panic".into(), case: case2(depth, lon, lat, r, 0, "local"), expected: "bounds (1 and depth + 1 - from values)".into(), actual: format!("{:?} {:?} {:?}", a, b.map(|v| v.len()), c.map(|v| v.len())) })
    }
  };
  part.validated += 1;
  part.outcome(b1.to_bits());
  for (b, api) in [(b1, "largest_center_to_vertex_distance_with_radius"), (b2[0], "largest_center_to_vertex_distances_with_radius(depth, depth+1)"), (b3[b3.len() - 1], "largest_center_to_vertex_distances_with_radius(depth-3, depth+1)")] {
    if !(b * (1.0 + SLACK) + ABS_SLACK >= truth) {
      let mut case = case2(depth, lon, lat, r, h, api);
      case["local_steps"] = json!(steps);
      return Some(Viol { api: api.into(), kind: "not-a-bound".into(), case, expected: format!(">= {:e} (cell {}/{} has its centre within the radius)", truth, depth, h), actual: format!("{:e} (ratio true/bound = {})", b, truth / b) });
    }
  }
  None
}

fn case3(lon: f64, lat: f64, r: f64) -> Value {
  json!({"claim": 3, "lon": f64_json(lon), "lat": f64_json(lat), "radius": f64_json(r)})
}

/// "The cell of its centre plus that cell's neighbours" at depth k: the cell is the one the
/// subject's own hash returns (checked by C01 to contain the position), the neighbours are the
/// lattice neighbours of the reference model.
pub fn start_block(k: u8, lon: f64, lat: f64) -> Vec<u64> {
  let c0 = match guarded(move || cdshealpix::nested::hash(k, lon, lat)) {
    Ok(c) if c < n_hash(k) => c,
    _ => return vec![],
  };
  let (x, y) = ref_proj(lon, lat);
  if !(outside(k, c0, x, y) <= TOL_PLANE) {
    return vec![]; // a C01 violation, reported there
  }
  let mut all = vec![c0];
  for (_, nb) in ref_neighbours(k, c0) {
    all.push(nb);
  }
  all
}

pub enum V3 {
  Ok,
  Known(Value),
  Bad(Viol),
}

/// claim 3 (containment) on one (position, radius).
pub fn check_claim3(lon: f64, lat: f64, r: f64, listed_kf1: bool, part: &mut Part) -> V3 {
  let has = cdshealpix::has_best_starting_depth(r);
  let k = guarded(move || cdshealpix::best_starting_depth(r));
  let refk = ref_start_depth(r);
  part.validated += 1;
  match (&k, has, refk) {
    (Err(_), false, None) => return V3::Ok,
    (Ok(k), true, Some(rk)) if *k == rk => {}
    _ => {
      return V3::Bad(Viol {
        api: "best_starting_depth".into(),
        kind: "inconsistent-start-depth".into(),
        case: case3(lon, lat, r),
        expected: format!("deepest depth whose limit exceeds r: {:?}; refusal iff !has_best_starting_depth", refk),
        actual: format!("best_starting_depth = {:?}, has_best_starting_depth = {}", k, has),
      })
    }
  }
  let k = k.unwrap();
  part.outcome(hash64(&[k as u64, lon.to_bits(), lat.to_bits()]));
  let block = start_block(k, lon, lat);
  if block.is_empty() {
    return V3::Ok; // hash failed at this position: C01's business
  }
  let mut pts = vec![];
  for i in 0..256 {
    let bearing = i as f64 * (TWO_PI / 256.0) + 0.001;
    pts.push(destination(lon, lat, bearing, r * (1.0 - 1e-6)));
    if i % 8 == 0 {
      pts.push(destination(lon, lat, bearing, r * 0.5));
      pts.push(destination(lon, lat, bearing, r * 0.9));
    }
  }
  for (l, b) in pts {
    // only points that really are in the cone (guards the oracle against its own rounding)
    if !(ang_dist(lon, lat, l, b) <= r) {
      continue;
    }
    let (x, y) = ref_proj(l, b);
    let inside = block.iter().any(|&c| outside(k, c, x, y) <= TOL_PLANE);
    if !inside {
      let t = thresholds();
      let ratio = r / t[k as usize];
      if listed_kf1 && ratio >= KF1_BAND_LO && ratio < 1.0 && lat.abs() + r >= transition_lat() {
        return V3::Known(case3(lon, lat, r));
      }
      return V3::Bad(Viol {
        api: "best_starting_depth".into(),
        kind: "cone-leaves-start-block".into(),
        case: case3(lon, lat, r),
        expected: format!("cone of radius {:e} contained in the cell of its centre and its neighbours at depth {} (limit {:e}, r/limit = {})", r, k, t[k as usize], ratio),
        actual: format!("cone point ({:e}, {:e}) is in none of the {} cells of the block", l, b, block.len()),
      });
    }
  }
  V3::Ok
}


/// Points of one edge of a cell (0 = SE, 1 = NW, 2 = SW, 3 = NE), shifted outwards by `out` lattice
/// units, as (lon, lat).
pub fn edge_points(k: u8, h: u64, edge: usize, m: usize, out: f64) -> Vec<(f64, f64)> {
  let n = nside(k) as f64;
  let (cx, cy) = center_lattice(k, h);
  let (cx, cy) = (cx as f64, cy as f64);
  (0..=m)
    .map(|i| {
      let t = i as f64 / m as f64;
      let (x, y) = match edge {
        0 => (cx + t + out, cy - 1.0 + t - out),
        1 => (cx - 1.0 + t - out, cy + t + out),
        2 => (cx - t - out, cy - 1.0 + t - out),
        _ => (cx + 1.0 - t + out, cy + t + out),
      };
      ref_unproj((x / n).rem_euclid(8.0), (y / n).max(-2.0).min(2.0))
    })
    .collect()
}

/// Smallest distance between two opposite edges of a cell (sampled: an upper bound of the true
/// minimum, good enough to LOCATE the narrowest cells): (distance, edge pair 0 = SE/NW, 1 = SW/NE).
fn edge_to_opposite_edge(k: u8, h: u64, m: usize) -> (f64, usize) {
  let mut best = (f64::INFINITY, 0);
  for pair in 0..2usize {
    let a: Vec<[f64; 3]> = edge_points(k, h, 2 * pair, m, 0.0).iter().map(|&(l, b)| unit_vec(l, b)).collect();
    let b: Vec<[f64; 3]> = edge_points(k, h, 2 * pair + 1, m, 0.0).iter().map(|&(l, b)| unit_vec(l, b)).collect();
    for p in &a {
      for q in &b {
        let d = ang_dist_vec(p, q);
        if d < best.0 {
          best = (d, pair);
        }
      }
    }
  }
  best
}

/// The narrowest cells of depth k (exhaustive over the cells of one base cell per region and its
/// mirror images by symmetry): (cell, edge pair, width).
pub fn narrowest_cells(k: u8, keep: usize) -> Vec<(u64, usize, f64)> {
  let per_base = 1u64 << (2 * k as u32);
  let mut all: Vec<(u64, usize, f64)> = vec![];
  for base in [0u64, 5, 10] {
    for h in base * per_base..(base + 1) * per_base {
      let (d, pair) = edge_to_opposite_edge(k, h, 8);
      all.push((h, pair, d));
    }
  }
  all.sort_by(|a, b| a.2.partial_cmp(&b.2).unwrap());
  all.truncate(keep);
  all
}

pub fn run(ctx: &Ctx) -> i32 {
  let quick = ctx.quick();
  let listed_kf1 = ctx.findings.listed("C16", KF1);
  let d1: u8 = if quick { 8 } else { 10 };
  let d2: u8 = if quick { 4 } else { 6 };
  enum Job {
    C1(u8, u64, u64),
    C1Class(u8),
    C2(u8),
    C3(u8),
    C3Narrow(u8),
    C2Local(u8),
  }
  let mut jobs = vec![];
  for d in 0..=d1 {
    let nh = n_hash(d);
    let step = 4096u64;
    let mut lo = 0;
    while lo < nh {
      jobs.push(Job::C1(d, lo, (lo + step).min(nh)));
      lo += step;
    }
  }
  for d in (d1 + 1)..=29 {
    jobs.push(Job::C1Class(d));
  }
  for d in 0..=d2 {
    jobs.push(Job::C2(d));
  }
  for k in 0..30u8 {
    jobs.push(Job::C3(k));
  }
  // claim 2, local form, at deeper depths: cones of a fraction of a cell to a few cells around the
  // cells next to the poles (first 4 rings) and around border-class cells
  for d in if quick { vec![5u8, 6, 8, 12, 17, 22, 29] } else { (5u8..=29).collect::<Vec<u8>>() } {
    jobs.push(Job::C2Local(d));
  }
  // claim 3 at the NARROWEST cells of a depth (located by exhaustive search): cones centred just
  // outside an edge of such a cell cross it entirely first
  for k in 0..=(if quick { 6u8 } else { 8 }) {
    jobs.push(Job::C3Narrow(k));
  }
  let positions2: Vec<(f64, f64)> = {
    let mut v: Vec<(f64, f64)> = plane_nodes(2).into_iter().map(|(x, y)| ref_unproj(x, y)).collect();
    v.extend(generic_points());
    v.push((PI / 4.0, 0.948));
    v.push((0.3, 1.2));
    v.push((-0.5, 0.9));
    v
  };
  let radii2 = [1e-3, 0.01, 0.05, 0.1, 0.2, 0.4, 0.8, 1.2, 1.5, HALF_PI, 1.7, 2.0, 2.4, 2.62, 2.8, 2.9, 3.0, 3.1, PI];
  let mut total = par_jobs(jobs.len(), |j| {
    let mut part = Part::new();
    if ctx.over_budget() {
      part.caps.push(format!("wall budget {}s reached in C16 enumeration", ctx.budget_s));
      return part;
    }
    match &jobs[j] {
      Job::C1(d, lo, hi) => {
        for h in *lo..*hi {
          part.stratum("claim1-all-cells", 1, 1);
          if let Some(v) = check_claim1(*d, h, &mut part) {
            part.viol(v);
          }
        }
      }
      Job::C1Class(d) => {
        for h in class_cells(*d).into_iter().chain(carry_cells(*d, false).into_iter()) {
          part.stratum("claim1-class-cells", 1, 1);
          if let Some(v) = check_claim1(*d, h, &mut part) {
            part.viol(v);
          }
        }
      }
      Job::C2(d) => {
        let tab = c2v_tab(*d);
        for &(lon, lat) in &positions2 {
          for &r in &radii2 {
            part.stratum("claim2", 1, 3);
            if let Some(v) = check_claim2(*d, lon, lat, r, &tab, &mut part) {
              part.viol(v);
            }
          }
        }
        if *d == 2 {
          part.sample(json!({"claim": 2, "depth": d, "lon": positions2[5].0, "lat": positions2[5].1, "radius": 0.2}));
        }
      }
      Job::C2Local(d) => {
        let n = nside(*d) as u32;
        let mut cells: Vec<u64> = vec![];
        for b in 0..4u8 {
          for i in 0..4u32 {
            for j in 0..4u32 {
              cells.push(encode(*d, b, n - 1 - i, n - 1 - j));
              cells.push(encode(*d, 8 + b, i, j));
            }
          }
        }
        let cls = class_cells(*d);
        cells.extend(cls.iter().step_by(if quick { 37 } else { 11 }).cloned());
        let inv = 1.0 / n as f64;
        // cells lying across the transition latitudes (centre on it): positions in their equatorial
        // half, cones smaller than a cell that still contain the cell centre
        for b in [0u8, 1, 2, 3, 8, 9, 10, 11] {
          for &i in &class_coords(*d) {
            let h = encode(*d, b, i, n - 1 - i);
            let (cx, cy) = center_plane(*d, h);
            let (lc, bc) = ref_unproj(cx, cy);
            let toward_equator = if bc > 0.0 { -1.0 } else { 1.0 };
            for (g, f) in [(0.05, 0.1), (0.05, 0.3), (0.2, 0.3), (0.4, 0.62)] {
              part.stratum("claim2-local", 1, 3);
              if let Some(v) = check_claim2_local(*d, lc, bc + toward_equator * g * inv, f * inv, 3, &mut part) {
                part.viol(v);
              }
            }
          }
        }
        for h in cells {
          for (px, py) in cell_points_plane(*d, h).iter().step_by(if quick { 2 } else { 1 }) {
            let (lon, lat) = ref_unproj(*px, *py);
            for f in [0.1, 0.3, 0.62, 0.7, 1.0, 1.6, 2.4] {
              part.stratum("claim2-local", 1, 3);
              if let Some(v) = check_claim2_local(*d, lon, lat, f * inv, (f * 2.0) as usize + 3, &mut part) {
                part.viol(v);
              }
            }
          }
        }
      }
      Job::C3Narrow(k) => {
        let t = thresholds();
        for (h, pair, w) in narrowest_cells(*k, 3) {
          part.sample(json!({"claim": 3, "narrowest_cell": h.to_string(), "depth": k, "edge_to_opposite_edge": w, "ratio_to_limit": w / t[*k as usize]}));
          for edge in [2 * pair, 2 * pair + 1] {
            for (lon, lat) in edge_points(*k, h, edge, 16, 1e-3) {
              for f in [0.9, 0.95, 0.965, 0.975, 0.985, 0.995, 0.999999] {
                part.stratum("claim3-narrowest-cells", 1, 2);
                match check_claim3(lon, lat, t[*k as usize] * f, listed_kf1, &mut part) {
                  V3::Ok => {}
                  V3::Known(ex) => part.known(KF1, ex),
                  V3::Bad(v) => part.viol(v),
                }
              }
            }
          }
        }
      }
      Job::C3(k) => {
        let t = thresholds();
        // positions: characteristic points of the class cells of depth k (thinned in quick mode)
        let cells = class_cells(*k);
        let stride = if quick { (cells.len() / 48).max(1) } else { (cells.len() / 200).max(1) };
        let fs: Vec<f64> = if quick { vec![0.5, 0.9, 0.99, 0.999999] } else { vec![0.3, 0.5, 0.7, 0.9, 0.97, 0.99, 0.999, 0.999999] };
        for h in cells.iter().step_by(stride) {
          for (px, py) in cell_points_plane(*k, *h).iter() {
            let (lon, lat) = ref_unproj(*px, *py);
            for &f in &fs {
              let r = t[*k as usize] * f;
              part.stratum("claim3-containment", 1, 2);
              match check_claim3(lon, lat, r, listed_kf1, &mut part) {
                V3::Ok => {}
                V3::Known(ex) => part.known(KF1, ex),
                V3::Bad(v) => part.viol(v),
              }
            }
          }
        }
      }
    }
    part
  });
  // thresholds strictly decreasing; start depth consistent on a dense radius alphabet
  let t = thresholds();
  for k in 1..30 {
    total.stratum("claim3-thresholds", 1, 1);
    // strictly decreasing, and halving from one depth to the next (a depth never skipped: two
    // recovered limits that coincide mean that a depth is never returned)
    let ratio = t[k] / t[k - 1];
    if !(t[k] < t[k - 1] && t[k] > 0.0 && ratio >= 0.40 && ratio <= 0.55) {
      total.viol(Viol { api: "best_starting_depth".into(), kind: "thresholds-not-decreasing".into(), case: json!({"claim": 3, "k": k}), expected: "strictly decreasing limits, each 0.40 .. 0.55 times the previous one (every depth 0..=29 is returned for some radius)".into(), actual: format!("T[{}] = {:e}, T[{}] = {:e}", k - 1, t[k - 1], k, t[k]) });
    }
  }
  for k in 0..30usize {
    for f in [0.3, 0.5, 0.51, 0.7, 0.9, 0.99, 1.0 - f64::EPSILON, 1.0, 1.0 + f64::EPSILON, 1.01, 1.5, 1.9] {
      let r = t[k] * f;
      total.stratum("claim3-start-depth", 1, 2);
      let mut p = Part::new();
      // position irrelevant for the consistency part: use a point on the equator, radius tiny w.r.t. containment
      if let V3::Bad(v) = check_claim3(0.3, 0.1, r, listed_kf1, &mut p) {
        if v.kind == "inconsistent-start-depth" {
          total.viol(v);
        }
      }
    }
  }
  for r in [3.0, 3.2, 10.0, f64::INFINITY] {
    total.stratum("claim3-start-depth", 1, 2);
    if cdshealpix::has_best_starting_depth(r) || guarded(move || cdshealpix::best_starting_depth(r)).is_ok() {
      total.viol(Viol { api: "best_starting_depth".into(), kind: "large-radius-accepted".into(), case: case3(0.0, 0.0, r), expected: "refused".into(), actual: "accepted".into() });
    }
  }
  let mut extra = Map::new();
  extra.insert("start_depth_thresholds_recovered".into(), json!(t.to_vec()));
  finish(
    ctx,
    total,
    json!({"claim1": format!("all cells of depth <= {}, class cells to depth 29; position = centre of the cell", d1),
      "claim2": format!("{} positions x {:?} radii x depths 0..={}, both _with_radius functions, against every cell of the depth", positions2.len(), radii2, d2),
      "claim3": "30 recovered limits strictly decreasing; start depth = deepest limit exceeding r on 12 factors x 30 limits; containment of 320 cone points (256 bearings on the rim) in the 3x3 block for the characteristic points of the class cells of every depth x radii just below each limit"}),
    "the cells / (position, radius) pairs listed in bounds",
    vec!["true centre-to-vertex distances from R1/R2; 1e-9 relative slack".into(), "containment judged on 320 points of the cone (256 bearings at 1-1e-6 of the radius, 32 bearings at 0.5 and 0.9)".into()],
    extra,
  )
}

pub fn replay(case: &Value, findings: &Findings) -> Option<Viol> {
  let mut part = Part::new();
  match case["claim"].as_u64().unwrap_or(0) {
    1 => check_claim1(case["depth"].as_u64().unwrap() as u8, u64_from_json(&case["hash"]), &mut part),
    2 => {
      let d = case["depth"].as_u64().unwrap() as u8;
      if let Some(st) = case.get("local_steps").and_then(|x| x.as_u64()) {
        return check_claim2_local(d, f64_from_json(&case["lon"]), f64_from_json(&case["lat"]), f64_from_json(&case["radius"]), st as usize, &mut part);
      }
      let tab = c2v_tab(d);
      check_claim2(d, f64_from_json(&case["lon"]), f64_from_json(&case["lat"]), f64_from_json(&case["radius"]), &tab, &mut part)
    }
    _ => {
      if case.get("lon").is_none() {
        return None;
      }
      match check_claim3(f64_from_json(&case["lon"]), f64_from_json(&case["lat"]), f64_from_json(&case["radius"]), findings.listed("C16", KF1), &mut part) {
        V3::Bad(v) => Some(v),
        _ => None,
      }
    }
  }
}
