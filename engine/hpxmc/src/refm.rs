//! Reference models, written from the HEALPix papers (Gorski 2005, Calabretta & Roukema 2007).
//! They share no code with the subject.
//!
//! R1: projection / de-projection in plain f64.
//! R2: integer lattice topology of the NESTED scheme (cells are unit diamonds on a lattice).
//! R5: bit (de)interleaving by a loop.
//! R6: sphere helpers.

pub const PI: f64 = std::f64::consts::PI;
pub const TWO_PI: f64 = 2.0 * PI;
pub const HALF_PI: f64 = 0.5 * PI;
pub const SQRT6: f64 = 2.449489742783178;
/// Tolerance (projection-plane units) for containment: 5e-5 of the smallest (depth 29) cell.
pub const TOL_PLANE: f64 = 1e-13;
/// Distance to a facet boundary of a polar cap below which a point is given its seam image.
pub const TOL_SEAM: f64 = 1e-12;

pub fn transition_lat() -> f64 {
  (2.0f64 / 3.0).asin()
}

// ---------------------------------------------------------------------------------------------
// R1
// ---------------------------------------------------------------------------------------------

/// HEALPix projection, x in [0, 8), y in [-2, 2].
pub fn ref_proj(lon: f64, lat: f64) -> (f64, f64) {
  let mut l = lon.rem_euclid(TWO_PI);
  if !(l < TWO_PI) {
    l = 0.0;
  }
  let mut x = l * (4.0 / PI);
  if x >= 8.0 {
    x = 0.0;
  }
  let z = lat.sin();
  if z.abs() <= 2.0 / 3.0 {
    (x, 1.5 * z)
  } else {
    // sqrt(3 (1 - |z|)) without cancellation
    let t = SQRT6 * (0.25 * PI - 0.5 * lat.abs()).sin().abs();
    let q = (x * 0.5).floor().min(3.0);
    let xc = 2.0 * q + 1.0;
    let y = 2.0 - t;
    ((x - xc) * t + xc, if lat < 0.0 { -y } else { y })
  }
}

/// Inverse of `ref_proj` (x is taken modulo 8).
pub fn ref_unproj(x: f64, y: f64) -> (f64, f64) {
  let mut x = x.rem_euclid(8.0);
  if !(x < 8.0) {
    x = 0.0;
  }
  if y.abs() <= 1.0 {
    (x * (PI / 4.0), (y * (2.0 / 3.0)).asin())
  } else {
    let t = 2.0 - y.abs();
    let lat = HALF_PI - 2.0 * (t / SQRT6).asin();
    let q = (x * 0.5).floor().min(3.0);
    let xc = 2.0 * q + 1.0;
    let lon = if t <= 0.0 { xc } else { xc + ((x - xc) / t).max(-1.0).min(1.0) };
    (lon * (PI / 4.0), if y < 0.0 { -lat } else { lat })
  }
}

/// All images, in the projection plane, of the sphere point whose projection is (x, y):
/// the point itself; its mirror image about the facet boundary when it lies on a polar-cap seam;
/// the four facet apexes when it is a pole.  (Images x +- 8 are handled by `wrap8`.)
pub fn images(x: f64, y: f64) -> ([(f64, f64); 5], usize) {
  let mut out = [(x, y); 5];
  let mut n = 1;
  let ay = y.abs();
  if ay > 1.0 {
    let t = 2.0 - ay;
    if t <= TOL_SEAM {
      // (the point itself stays the first image: it is not the pole unless t = 0)
      for q in 0..4 {
        out[q + 1] = (2.0 * q as f64 + 1.0, y);
      }
      return (out, 5);
    }
    let q = (x * 0.5).floor();
    let d = x - 2.0 * q - 1.0;
    if (d.abs() - t).abs() <= TOL_SEAM {
      let axis = if d > 0.0 { 2.0 * q + 2.0 } else { 2.0 * q };
      out[n] = (2.0 * axis - x, y);
      n += 1;
    }
  }
  (out, n)
}

#[inline]
pub fn wrap8(dx: f64) -> f64 {
  let mut d = dx % 8.0;
  if d > 4.0 {
    d -= 8.0;
  } else if d < -4.0 {
    d += 8.0;
  }
  d
}

// ---------------------------------------------------------------------------------------------
// R5: bit interleaving (i on even bits, j on odd bits)
// ---------------------------------------------------------------------------------------------

pub fn interleave(i: u32, j: u32) -> u64 {
  let mut h = 0u64;
  for b in 0..32 {
    h |= (((i >> b) & 1) as u64) << (2 * b);
    h |= (((j >> b) & 1) as u64) << (2 * b + 1);
  }
  h
}

pub fn deinterleave(h: u64) -> (u32, u32) {
  let (mut i, mut j) = (0u32, 0u32);
  for b in 0..32 {
    i |= (((h >> (2 * b)) & 1) as u32) << b;
    j |= (((h >> (2 * b + 1)) & 1) as u32) << b;
  }
  (i, j)
}

// ---------------------------------------------------------------------------------------------
// R2: lattice topology
// ---------------------------------------------------------------------------------------------

#[inline]
pub fn nside(depth: u8) -> i64 {
  1i64 << depth
}
#[inline]
pub fn n_hash(depth: u8) -> u64 {
  12u64 << (2 * depth as u32)
}

pub fn decode(depth: u8, h: u64) -> (u8, u32, u32) {
  let d0h = (h >> (2 * depth as u32)) as u8;
  let low = if depth == 0 { 0 } else { h & ((1u64 << (2 * depth as u32)) - 1) };
  let (i, j) = deinterleave(low);
  (d0h, i, j)
}

pub fn encode(depth: u8, d0h: u8, i: u32, j: u32) -> u64 {
  ((d0h as u64) << (2 * depth as u32)) | interleave(i, j)
}

/// Centre of a base cell in the projection plane.
#[inline]
pub fn base_center(d0h: u8) -> (i64, i64) {
  let k = (d0h & 3) as i64;
  match d0h >> 2 {
    0 => (1 + 2 * k, 1),
    1 => (2 * k, 0),
    _ => (1 + 2 * k, -1),
  }
}

/// Centre of a cell in lattice units (X = x * nside, Y = y * nside); X may be negative for
/// base cell 4 (to be taken modulo 8 nside).
pub fn center_lattice(depth: u8, h: u64) -> (i64, i64) {
  let n = nside(depth);
  let (d0h, i, j) = decode(depth, h);
  let (cx, cy) = base_center(d0h);
  (cx * n + i as i64 - j as i64, cy * n + i as i64 + j as i64 + 1 - n)
}

/// Centre of a cell in the projection plane, x in (-1, 8).
pub fn center_plane(depth: u8, h: u64) -> (f64, f64) {
  let n = nside(depth) as f64;
  let (x, y) = center_lattice(depth, h);
  (x as f64 / n, y as f64 / n)
}

/// Signed L1 "outsideness" of the sphere point projected at (x, y) with respect to cell h:
/// <= 0 inside or on the border, > 0 outside (in projection-plane units), minimum over all the
/// images of the point.
pub fn outside(depth: u8, h: u64, x: f64, y: f64) -> f64 {
  let n = nside(depth) as f64;
  let (xc, yc) = center_plane(depth, h);
  let (imgs, k) = images(x, y);
  let mut best = f64::INFINITY;
  for &(xi, yi) in &imgs[..k] {
    let d = wrap8(xi - xc).abs() + (yi - yc).abs() - 1.0 / n;
    if d < best {
      best = d;
    }
  }
  best
}

/// Canonical representative of a lattice vertex (exact seam identification).
/// Returns None when the point is outside the HEALPix domain.
pub fn canon_vertex(n: i64, x: i64, y: i64) -> Option<(i64, i64)> {
  let m = 8 * n;
  let mut x = x.rem_euclid(m);
  let ay = y.abs();
  if ay > 2 * n {
    return None;
  }
  if ay == 2 * n {
    return Some((0, y));
  }
  if ay > n {
    let t = 2 * n - ay;
    let q = x.div_euclid(2 * n);
    let d = x - 2 * q * n - n;
    if d.abs() > t {
      return None;
    }
    if d == t {
      x = (2 * q * n + 3 * n - t).rem_euclid(m);
    }
  }
  Some((x, y))
}

/// The cell whose centre is the lattice point (cx, cy), if any.
pub fn cell_from_center(depth: u8, cx: i64, cy: i64) -> Option<u64> {
  let n = nside(depth);
  let m = 8 * n;
  for d0h in 0..12u8 {
    let (bx, by) = base_center(d0h);
    let mut a = (cx - bx * n).rem_euclid(m);
    if a >= 4 * n {
      a -= m;
    }
    let b = cy - by * n + n - 1;
    if (a + b) & 1 != 0 {
      continue;
    }
    let i = (a + b) >> 1;
    let j = (b - a) >> 1;
    if i >= 0 && j >= 0 && i < n && j < n {
      return Some(encode(depth, d0h, i as u32, j as u32));
    }
  }
  None
}

/// All images of a (canonical or not) lattice vertex.
fn vertex_images(n: i64, x: i64, y: i64) -> Vec<(i64, i64)> {
  let m = 8 * n;
  let x = x.rem_euclid(m);
  let ay = y.abs();
  let mut v = vec![];
  if ay == 2 * n {
    for q in 0..4 {
      v.push((2 * q * n + n, y));
    }
    return v;
  }
  v.push((x, y));
  if ay > n {
    let t = 2 * n - ay;
    let q = x.div_euclid(2 * n);
    let d = x - 2 * q * n - n;
    if d == t {
      v.push(((2 * (2 * q * n + 2 * n) - x).rem_euclid(m), y));
    } else if d == -t {
      v.push(((2 * (2 * q * n) - x).rem_euclid(m), y));
    }
  }
  v
}

/// The (<= 4) cells having the given lattice point as a vertex.
pub fn cells_at_vertex(depth: u8, x: i64, y: i64) -> Vec<u64> {
  let n = nside(depth);
  let mut out: Vec<u64> = Vec::with_capacity(4);
  for (xi, yi) in vertex_images(n, x, y) {
    for (dx, dy) in [(0, 1), (-1, 0), (0, -1), (1, 0)] {
      if let Some(h) = cell_from_center(depth, xi + dx, yi + dy) {
        if !out.contains(&h) {
          out.push(h);
        }
      }
    }
  }
  out
}

/// Direction labels, with the indices used by the subject's `MainWind::from_index`:
/// S=0, SE=1, E=2, SW=3, C=4, NE=5, W=6, NW=7, N=8.
pub const DIR_NAMES: [&str; 9] = ["S", "SE", "E", "SW", "C", "NE", "W", "NW", "N"];

/// vertex bit: S=1, E=2, N=4, W=8
pub fn vertices_lattice(depth: u8, h: u64) -> [(i64, i64); 4] {
  let (cx, cy) = center_lattice(depth, h);
  [(cx, cy - 1), (cx + 1, cy), (cx, cy + 1), (cx - 1, cy)]
}

fn label_from_mask(mask: u8) -> Option<usize> {
  Some(match mask {
    1 => 0,  // S
    3 => 1,  // S+E -> SE
    2 => 2,  // E
    9 => 3,  // S+W -> SW
    6 => 5,  // E+N -> NE
    8 => 6,  // W
    12 => 7, // N+W -> NW
    4 => 8,  // N
    _ => return None,
  })
}

/// Geometric neighbours of a cell: (direction index, hash), sorted by direction index.
/// A cell is a neighbour iff it shares at least one (canonical) vertex; the label says which.
pub fn ref_neighbours(depth: u8, h: u64) -> Vec<(usize, u64)> {
  let vs = vertices_lattice(depth, h);
  let mut acc: Vec<(u64, u8)> = Vec::with_capacity(8);
  for (k, &(x, y)) in vs.iter().enumerate() {
    for c in cells_at_vertex(depth, x, y) {
      if c == h {
        continue;
      }
      if let Some(e) = acc.iter_mut().find(|e| e.0 == c) {
        e.1 |= 1 << k;
      } else {
        acc.push((c, 1 << k));
      }
    }
  }
  let mut out: Vec<(usize, u64)> = acc
    .into_iter()
    .map(|(c, m)| {
      (label_from_mask(m).unwrap_or_else(|| panic!("oracle: impossible vertex mask {} for cell {} neighbour {} depth {}", m, h, c, depth)), c)
    })
    .collect();
  out.sort();
  out
}

/// Do two cells of the same depth touch (share a canonical vertex)?
pub fn adjacent(depth: u8, a: u64, b: u64) -> bool {
  let n = nside(depth);
  let va = vertices_lattice(depth, a);
  let vb = vertices_lattice(depth, b);
  for &(x, y) in &va {
    let ca = canon_vertex(n, x, y);
    for &(x2, y2) in &vb {
      if ca.is_some() && ca == canon_vertex(n, x2, y2) {
        return true;
      }
    }
  }
  false
}

/// Oracle self checks (guard the oracle, not the subject).
pub fn self_check() {
  for depth in 0..=3u8 {
    let nh = n_hash(depth);
    let mut n7 = 0;
    let mut n6 = 0;
    for h in 0..nh {
      let (d0h, i, j) = decode(depth, h);
      assert_eq!(encode(depth, d0h, i, j), h);
      let (cx, cy) = center_lattice(depth, h);
      assert_eq!(cell_from_center(depth, cx, cy), Some(h), "oracle: centre decode");
      let nb = ref_neighbours(depth, h);
      match nb.len() {
        8 => {}
        7 => n7 += 1,
        6 => n6 += 1,
        k => panic!("oracle: {} neighbours for {}/{}", k, depth, h),
      }
      for &(dir, c) in &nb {
        // symmetric, with the opposite label up to the rotation at polar seams (only the set is checked)
        let back = ref_neighbours(depth, c);
        assert!(back.iter().any(|&(_, b)| b == h), "oracle: asymmetric {} {} {}", depth, h, c);
        let _ = dir;
      }
    }
    if depth == 0 {
      assert_eq!((n6, n7), (12, 0));
    } else {
      assert_eq!((n6, n7), (0, 24), "oracle: three-cell points");
    }
  }
  // R1 round trip on a few points
  for &(lon, lat) in &[(0.1, 0.2), (1.0, 1.2), (5.5, -1.4), (3.0, 0.7297), (6.2, -0.73)] {
    let (x, y) = ref_proj(lon, lat);
    let (l2, b2) = ref_unproj(x, y);
    assert!((l2 - lon).abs() < 1e-14 && (b2 - lat).abs() < 1e-14, "oracle: R1 round trip {} {} -> {} {}", lon, lat, l2, b2);
  }
}

// ---------------------------------------------------------------------------------------------
// R6: sphere helpers
// ---------------------------------------------------------------------------------------------

pub fn haversine(lon1: f64, lat1: f64, lon2: f64, lat2: f64) -> f64 {
  let s1 = (0.5 * (lat2 - lat1)).sin();
  let s2 = (0.5 * (lon2 - lon1)).sin();
  let a = s1 * s1 + lat1.cos() * lat2.cos() * s2 * s2;
  2.0 * a.sqrt().min(1.0).asin()
}

pub fn unit_vec(lon: f64, lat: f64) -> [f64; 3] {
  let c = lat.cos();
  [c * lon.cos(), c * lon.sin(), lat.sin()]
}

/// Angular distance from unit vectors (atan2 form: accurate at all separations).
pub fn ang_dist_vec(a: &[f64; 3], b: &[f64; 3]) -> f64 {
  let c = cross(a, b);
  let s = (c[0] * c[0] + c[1] * c[1] + c[2] * c[2]).sqrt();
  let d = a[0] * b[0] + a[1] * b[1] + a[2] * b[2];
  s.atan2(d)
}

pub fn ang_dist(lon1: f64, lat1: f64, lon2: f64, lat2: f64) -> f64 {
  ang_dist_vec(&unit_vec(lon1, lat1), &unit_vec(lon2, lat2))
}

pub fn cross(a: &[f64; 3], b: &[f64; 3]) -> [f64; 3] {
  [a[1] * b[2] - a[2] * b[1], a[2] * b[0] - a[0] * b[2], a[0] * b[1] - a[1] * b[0]]
}
pub fn dot(a: &[f64; 3], b: &[f64; 3]) -> f64 {
  a[0] * b[0] + a[1] * b[1] + a[2] * b[2]
}

pub fn lonlat_of(v: &[f64; 3]) -> (f64, f64) {
  // atan2 form: accurate near the poles (asin(z) is not)
  let lat = v[2].atan2((v[0] * v[0] + v[1] * v[1]).sqrt());
  let mut lon = v[1].atan2(v[0]);
  if lon < 0.0 {
    lon += TWO_PI;
  }
  (lon, lat)
}

/// Destination point from (lon, lat) along the given bearing (from north, eastwards) at angular
/// distance d.  Vector form (local north / east frame), accurate at every scale and near the poles.
pub fn destination(lon: f64, lat: f64, bearing: f64, d: f64) -> (f64, f64) {
  let c = unit_vec(lon, lat);
  let north = [-lat.sin() * lon.cos(), -lat.sin() * lon.sin(), lat.cos()];
  let east = [-lon.sin(), lon.cos(), 0.0];
  let (sb, cb) = bearing.sin_cos();
  let (sd, cd) = d.sin_cos();
  let p = [
    c[0] * cd + (north[0] * cb + east[0] * sb) * sd,
    c[1] * cd + (north[1] * cb + east[1] * sb) * sd,
    c[2] * cd + (north[2] * cb + east[2] * sb) * sd,
  ];
  lonlat_of(&p)
}

/// Witness points (sphere coordinates) of the closed cell: a k x k lattice of its diamond.
pub fn cell_witnesses(depth: u8, h: u64, k: usize) -> Vec<(f64, f64)> {
  let n = nside(depth) as f64;
  let (xc, yc) = center_plane(depth, h);
  let mut out = Vec::with_capacity(k * k);
  for a in 0..k {
    for b in 0..k {
      // (u, v) in [0,1]^2 along the SE and SW... axes of the diamond
      let u = a as f64 / (k - 1) as f64;
      let v = b as f64 / (k - 1) as f64;
      // south vertex + u * (S->E) + v * (S->W)
      let x = xc + (u - v) / n;
      let y = yc - 1.0 / n + (u + v) / n;
      out.push(ref_unproj(x, y.max(-2.0).min(2.0)));
    }
  }
  out
}

pub fn next_up(x: f64) -> f64 {
  if x.is_nan() || x == f64::INFINITY {
    return x;
  }
  if x == 0.0 {
    return f64::from_bits(1);
  }
  let b = x.to_bits();
  if x > 0.0 { f64::from_bits(b + 1) } else { f64::from_bits(b - 1) }
}
pub fn next_down(x: f64) -> f64 {
  -next_up(-x)
}
pub fn nudge(x: f64, k: i32) -> f64 {
  let mut v = x;
  for _ in 0..k.abs() {
    v = if k > 0 { next_up(v) } else { next_down(v) };
  }
  v
}

// ---------------------------------------------------------------------------------------------
// R3: RING order for any nside (exact integers; u128 + exact integer square root)
// ---------------------------------------------------------------------------------------------

pub fn isqrt_u128(v: u128) -> u128 {
  if v < 2 {
    return v;
  }
  let mut x = (v as f64).sqrt() as u128;
  // Newton + correction
  loop {
    let y = (x + v / x) >> 1;
    if y >= x {
      break;
    }
    x = y;
  }
  while x * x > v {
    x -= 1;
  }
  while (x + 1) * (x + 1) <= v {
    x += 1;
  }
  x
}

pub fn ring_n_hash(n: u64) -> u64 {
  12 * n * n
}

/// Number of cells in the rings 1..=j (j counted from the north pole, 1..=4n-1).
fn cells_before_ring(n: u64, j: u64) -> u64 {
  // rings 1..j-1
  let jm = j - 1;
  if jm <= n {
    2 * jm * (jm + 1)
  } else if jm < 3 * n {
    2 * n * (n + 1) + (jm - n) * 4 * n
  } else {
    // south cap rings: ring j' = 4n - j has 4 j' cells
    let total = 12 * n * n;
    let jp = 4 * n - 1 - jm; // number of rings remaining after jm ... rings jm+1..4n-1 => j' = 4n-jm-1 .. 1
    total - 2 * jp * (jp + 1)
  }
}

/// (ring j counted from the north pole in 1..=4n-1, index in ring) of a RING index.
pub fn ring_decode(n: u64, r: u64) -> (u64, u64) {
  let ncap = 2 * n * (n + 1); // north cap including the transition ring
  let total = 12 * n * n;
  if r < ncap {
    // largest j with 2 (j-1) j <= r
    let s = isqrt_u128(1 + 2 * r as u128) as u64; // floor(sqrt(1+2r))
    let mut j = (s + 1) / 2; // candidate
    while 2 * (j - 1) * j > r {
      j -= 1;
    }
    while 2 * j * (j + 1) <= r {
      j += 1;
    }
    (j, r - 2 * (j - 1) * j)
  } else if r < total - ncap {
    let k = (r - ncap) / (4 * n);
    (n + 1 + k, (r - ncap) % (4 * n))
  } else {
    let rr = total - 1 - r; // counted from the south pole, reversed
    let s = isqrt_u128(1 + 2 * rr as u128) as u64;
    let mut jp = (s + 1) / 2;
    while 2 * (jp - 1) * jp > rr {
      jp -= 1;
    }
    while 2 * jp * (jp + 1) <= rr {
      jp += 1;
    }
    let idx_rev = rr - 2 * (jp - 1) * jp;
    (4 * n - jp, 4 * jp - 1 - idx_rev)
  }
}

/// Lattice centre (X in [0, 8n), Y) of the RING cell r for any nside n.
pub fn ring_center(n: u64, r: u64) -> (i64, i64) {
  let (j, idx) = ring_decode(n, r);
  let ni = n as i64;
  let y = 2 * ni - j as i64;
  let x = if j <= n {
    let q = idx / j;
    let m = idx % j;
    2 * q as i64 * ni + (ni - j as i64 + 1) + 2 * m as i64
  } else if j < 3 * n {
    let s = (y + ni + 1).rem_euclid(2);
    s + 2 * idx as i64
  } else {
    let jp = 4 * n - j;
    let q = idx / jp;
    let m = idx % jp;
    2 * q as i64 * ni + (ni - jp as i64 + 1) + 2 * m as i64
  };
  (x, y)
}

/// RING index of the cell whose lattice centre is (X, Y), if it is one.
pub fn ring_index(n: u64, x: i64, y: i64) -> Option<u64> {
  let ni = n as i64;
  let x = x.rem_euclid(8 * ni);
  let j = 2 * ni - y;
  if j < 1 || j > 4 * ni - 1 {
    return None;
  }
  let j = j as u64;
  let before = cells_before_ring(n, j);
  let idx = if j <= n || j >= 3 * n {
    let jp = if j <= n { j } else { 4 * n - j } as i64;
    let q = x / (2 * ni);
    let off = x - 2 * q * ni - (ni - jp + 1);
    if off < 0 || off % 2 != 0 || off / 2 >= jp {
      return None;
    }
    (q * jp + off / 2) as u64
  } else {
    let s = (y + ni + 1).rem_euclid(2);
    if (x - s) % 2 != 0 {
      return None;
    }
    ((x - s) / 2) as u64
  };
  Some(before + idx)
}

pub fn r3_self_check() {
  for n in [1u64, 2, 3, 4, 5, 7, 8, 16] {
    let total = ring_n_hash(n);
    let mut prev: Option<(i64, i64)> = None;
    for r in 0..total {
      let (x, y) = ring_center(n, r);
      assert_eq!(ring_index(n, x, y), Some(r), "oracle: R3 inverse n={} r={}", n, r);
      if let Some((px, py)) = prev {
        assert!(y < py || (y == py && x > px), "oracle: R3 order n={} r={}", n, r);
      }
      prev = Some((x, y));
      if n.is_power_of_two() {
        let d = n.trailing_zeros() as u8;
        assert!(cell_from_center(d, x, y).is_some(), "oracle: R3 centre is not a NESTED centre n={} r={}", n, r);
      }
    }
  }
  // large values stay exact
  let n = 1u64 << 29;
  for r in [0u64, 3, 4, 2 * n * (n + 1) - 1, 2 * n * (n + 1), 12 * n * n - 1, 6 * n * n] {
    let (x, y) = ring_center(n, r);
    assert_eq!(ring_index(n, x, y), Some(r));
  }
}
