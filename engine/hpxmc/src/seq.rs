//! Call sequences (shape E over operation histories): the functions behind the properties are
//! specified as *pure* -- the statement of every property quantifies over inputs only, so the
//! result of a call may not depend on the calls made before it.  This module enumerates ALL
//! ordered pairs (and, on a sub-alphabet, all ordered triples) of calls of a small alphabet in
//! which the same few values are used in every argument role (so that any cache, memo or scratch
//! state keyed on less than the full input collides), executes them as one history on a single
//! dedicated thread, and compares every result, bit for bit, with the result of the same call made
//! alone in a fresh thread (which the per-call checks of the property compare with the reference
//! models).  A difference is a violation of the property the alphabet belongs to; it is confirmed
//! and minimised by re-execution of the shortest suffix of the history that reproduces it in a
//! fresh thread, and is replayable from (alphabet name, list of call indices).

use crate::bm::Bm;
use crate::report::*;
use cdshealpix::compass_point::{Cardinal, MainWind};
use cdshealpix::nested;
use cdshealpix::ring;
use serde_json::{json, Value};

#[derive(Clone, Debug)]
pub struct Call {
  pub f: &'static str,
  pub u: Vec<u64>,
  pub x: Vec<f64>,
}

impl Call {
  pub fn new(f: &'static str, u: &[u64], x: &[f64]) -> Call {
    Call { f, u: u.to_vec(), x: x.to_vec() }
  }
  pub fn to_json(&self) -> Value {
    json!({"fn": self.f, "u": self.u.iter().map(|v| v.to_string()).collect::<Vec<_>>(), "x": self.x.iter().map(|&v| f64_json(v)).collect::<Vec<_>>()})
  }
  pub fn describe(&self) -> String {
    format!("{}({}{}{})", self.f, self.u.iter().map(|v| v.to_string()).collect::<Vec<_>>().join(", "), if self.u.is_empty() || self.x.is_empty() { "" } else { ", " }, self.x.iter().map(|v| format!("{:e}", v)).collect::<Vec<_>>().join(", "))
  }
}

fn pair(p: (f64, f64)) -> Vec<u64> {
  vec![p.0.to_bits(), p.1.to_bits()]
}

fn bmoc_words(b: &nested::bmoc::BMOC) -> Vec<u64> {
  let bm = Bm::from_impl(b);
  let mut v = Vec::with_capacity(1 + bm.entries.len());
  v.push(bm.depth_max as u64);
  for e in &bm.entries {
    v.push(((e.0 as u64) << 58) ^ (e.1 << 1) ^ (e.2 as u64));
  }
  // long outputs are compared by digest (the first words are kept for the report)
  if v.len() > 64 {
    let h = hash64(&v);
    v.truncate(63);
    v.push(h);
  }
  v
}

/// Execute one call of the language on the subject (may panic: callers use `run`).
fn exec(c: &Call) -> Vec<u64> {
  let u = &c.u;
  let x = &c.x;
  let d = |k: usize| u[k] as u8;
  match c.f {
    "proj" => pair(cdshealpix::proj(x[0], x[1])),
    "unproj" => pair(cdshealpix::unproj(x[0], x[1])),
    "base_cell_from_proj_coo" => vec![cdshealpix::base_cell_from_proj_coo(x[0], x[1]) as u64],
    "nested::hash" => vec![nested::hash(d(0), x[0], x[1])],
    "nested::hash_with_dxdy" => {
      let (h, dx, dy) = nested::hash_with_dxdy(d(0), x[0], x[1]);
      vec![h, dx.to_bits(), dy.to_bits()]
    }
    "nested::center" => pair(nested::center(d(0), u[1])),
    "nested::sph_coo" => pair(nested::sph_coo(d(0), u[1], x[0], x[1])),
    "nested::vertices" => nested::vertices(d(0), u[1]).iter().flat_map(|&p| pair(p)).collect(),
    "nested::vertex" => pair(nested::get_or_create(d(0)).vertex(u[1], Cardinal::from_index(u[2] as u8))),
    "nested::center_of_projected_cell" => pair(nested::get_or_create(d(0)).center_of_projected_cell(u[1])),
    "nested::path_along_cell_edge" => nested::path_along_cell_edge(d(0), u[1], &Cardinal::from_index(u[2] as u8), u[3] != 0, u[4] as u32).iter().flat_map(|&p| pair(p)).collect(),
    "nested::grid" => nested::grid(d(0), u[1], u[2] as u16).iter().flat_map(|&p| pair(p)).collect(),
    "nested::neighbours" => {
      let m = nested::neighbours(d(0), u[1], true);
      (0..9u8).map(|k| m.get(MainWind::from_index(k)).copied().unwrap_or(u64::MAX)).collect()
    }
    "nested::neighbour" => vec![nested::get_or_create(d(0)).neighbour(u[1], MainWind::from_index(u[2] as u8)).unwrap_or(u64::MAX)],
    "nested::to_ring" => vec![nested::get_or_create(d(0)).to_ring(u[1])],
    "nested::from_ring" => vec![nested::get_or_create(d(0)).from_ring(u[1])],
    "nested::to_uniq" => vec![nested::to_uniq(d(0), u[1])],
    "nested::to_uniq_ivoa" => vec![nested::to_uniq_ivoa(d(0), u[1])],
    "nested::from_uniq" => {
      let (a, b) = nested::from_uniq(u[0]);
      vec![a as u64, b]
    }
    "nested::from_uniq_ivoa" => {
      let (a, b) = nested::from_uniq_ivoa(u[0]);
      vec![a as u64, b]
    }
    "nested::bilinear_interpolation" => nested::bilinear_interpolation(d(0), x[0], x[1]).iter().flat_map(|&(h, w)| vec![h, w.to_bits()]).collect(),
    "nested::internal_edge" => nested::internal_edge(d(0), u[1], d(2)).to_vec(),
    "nested::internal_edge_sorted" => nested::internal_edge_sorted(d(0), u[1], d(2)).to_vec(),
    "nested::external_edge" => nested::external_edge(d(0), u[1], d(2)).to_vec(),
    "nested::external_edge_sorted" => nested::external_edge_sorted(d(0), u[1], d(2)).to_vec(),
    "nested::cone_coverage_approx" => bmoc_words(&nested::cone_coverage_approx(d(0), x[0], x[1], x[2])),
    "nested::cone_coverage_approx_custom" => bmoc_words(&nested::cone_coverage_approx_custom(d(0), d(1), x[0], x[1], x[2])),
    "nested::cone_coverage_approx_flat" => {
      let v = nested::cone_coverage_approx_flat(d(0), x[0], x[1], x[2]);
      vec![v.len() as u64, hash64(&v)]
    }
    "nested::elliptical_cone_coverage" => bmoc_words(&nested::elliptical_cone_coverage(d(0), x[0], x[1], x[2], x[3], x[4])),
    "nested::elliptical_cone_coverage_custom" => bmoc_words(&nested::elliptical_cone_coverage_custom(d(0), d(1), x[0], x[1], x[2], x[3], x[4])),
    "nested::polygon_coverage" => {
      let vs: Vec<(f64, f64)> = x.chunks(2).map(|p| (p[0], p[1])).collect();
      bmoc_words(&nested::polygon_coverage(d(0), &vs, u[1] != 0))
    }
    "best_starting_depth" => vec![if cdshealpix::has_best_starting_depth(x[0]) { cdshealpix::best_starting_depth(x[0]) as u64 } else { u64::MAX }],
    "largest_center_to_vertex_distance" => vec![cdshealpix::largest_center_to_vertex_distance(d(0), x[0], x[1]).to_bits()],
    "largest_center_to_vertex_distance_with_radius" => vec![cdshealpix::largest_center_to_vertex_distance_with_radius(d(0), x[0], x[1], x[2]).to_bits()],
    "largest_center_to_vertex_distances_with_radius" => cdshealpix::largest_center_to_vertex_distances_with_radius(d(0), d(1), x[0], x[1], x[2]).iter().map(|v| v.to_bits()).collect(),
    "ring::hash" => vec![ring::hash(u[0] as u32, x[0], x[1])],
    "ring::hash_with_dxdy" => {
      let (h, dx, dy) = ring::hash_with_dxdy(u[0] as u32, x[0], x[1]);
      vec![h, dx.to_bits(), dy.to_bits()]
    }
    "ring::center" => pair(ring::center(u[0] as u32, u[1])),
    "ring::center_of_projected_cell" => pair(ring::center_of_projected_cell(u[0] as u32, u[1])),
    "ring::sph_coo" => pair(ring::sph_coo(u[0] as u32, u[1], x[0], x[1])),
    "ring::vertices" => ring::vertices(u[0] as u32, u[1]).iter().flat_map(|&p| pair(p)).collect(),
    "zoc::ij2h" => vec![nested::zordercurve::get_zoc(d(0)).ij2h(u[1] as u32, u[2] as u32)],
    "zoc::h2ij" => vec![nested::zordercurve::get_zoc(d(0)).h2ij(u[1])],
    "zoc::i02h" => vec![nested::zordercurve::get_zoc(d(0)).i02h(u[1] as u32)],
    "zoc::oj2h" => vec![nested::zordercurve::get_zoc(d(0)).oj2h(u[1] as u32)],
    "bmoc::op" => {
      // u = [op, depth_max a, entries of a ..., MARK, depth_max b, entries of b ...]; an entry is
      // depth << 58 ^ hash << 1 ^ flag
      const MARK: u64 = u64::MAX;
      let cut = u.iter().position(|&w| w == MARK).unwrap();
      let mk = |w: &[u64]| Bm::new(w[0] as u8, w[1..].iter().map(|&e| ((e >> 58) as u8, (e & ((1u64 << 58) - 1)) >> 1, e & 1 == 1)).collect()).to_impl();
      let a = mk(&u[1..cut]);
      let b = mk(&u[cut + 1..]);
      bmoc_words(&match u[0] {
        0 => a.not(),
        1 => a.and(&b),
        2 => a.or(&b),
        _ => a.xor(&b),
      })
    }
    other => panic!("seq: unknown function {}", other),
  }
}

/// A result: the words returned, or the panic message.
pub type Res = Result<Vec<u64>, String>;

/// Size of the sub-alphabet whose ordered quadruples are enumerated.
const QUAD_ALPHABET: usize = 12;

pub fn run(c: &Call) -> Res {
  guarded(|| exec(c))
}

fn fresh<T: Send, F: FnOnce() -> T + Send>(f: F) -> T {
  std::thread::scope(|s| s.spawn(f).join().expect("seq: worker thread died"))
}

/// Execute the calls `idx` (indices in `alpha`) in a fresh thread and return the last result.
fn last_of(alpha: &[Call], idx: &[usize]) -> Res {
  fresh(|| {
    let mut r = Err("empty".to_string());
    for &k in idx {
      r = run(&alpha[k]);
    }
    r
  })
}

fn show(r: &Res) -> String {
  match r {
    Ok(v) => format!("{:x?}{}", &v[..v.len().min(8)], if v.len() > 8 { format!(" ... ({} words)", v.len()) } else { String::new() }),
    Err(m) => format!("panic: {}", m),
  }
}

fn violation(name: &str, alpha: &[Call], idx: Vec<usize>, alone: &Res, got: &Res, reproduced: bool) -> Viol {
  let last = *idx.last().unwrap();
  let shown: Vec<String> = idx.iter().rev().take(3).rev().map(|&k| alpha[k].describe()).collect();
  Viol {
    api: alpha[last].f.to_string(),
    kind: if reproduced { "history-dependent-result".into() } else { "history-dependent-result-not-reproduced-alone".into() },
    case: json!({"sequence_alphabet": name, "sequence": idx, "last_calls": shown}),
    expected: format!("{} = {} (the result of the same call made alone in a fresh thread; the functions are pure)", alpha[last].describe(), show(alone)),
    actual: format!("{} after the {} preceding call(s) [.. {}]", show(got), idx.len() - 1, shown.join(" ; ")),
  }
}

/// All ordered pairs of `alpha`, and all ordered triples of the calls listed in `triple`.
/// `name` identifies the alphabet for replay (see `replay`).
pub fn check_history_independence(ctx: &Ctx, name: &str, alpha: &[Call], triple: &[usize], total: &mut Part) -> Value {
  let n = alpha.len();
  let t0 = std::time::Instant::now();
  // 1. every call alone, in its own fresh thread -- twice (determinism of the harness itself)
  let alone: Vec<Res> = (0..n).map(|k| last_of(alpha, &[k])).collect();
  for k in 0..n {
    total.stratum("call-sequences:alone", 1, 2);
    let again = last_of(alpha, &[k]);
    if again != alone[k] {
      total.viol(violation(name, alpha, vec![k], &alone[k], &again, false));
      return json!({"alphabet": name, "calls": n, "aborted": "a call alone is not deterministic"});
    }
    if let Ok(v) = &alone[k] {
      total.outcome(hash64(v));
    }
  }
  // 2. one history on one dedicated thread: for i, for j: call i, call j
  let mut pairs_done = 0u64;
  let mut triples_done = 0u64;
  let mut quads_done = 0u64;
  let mut capped = false;
  let found: Option<(Vec<usize>, Res)> = fresh(|| {
    let mut hist: Vec<usize> = Vec::new();
    let keep = 1usize << 16;
    let mut step = |k: usize, hist: &mut Vec<usize>| -> Option<Res> {
      let r = run(&alpha[k]);
      hist.push(k);
      if hist.len() > 2 * keep {
        hist.drain(..keep);
      }
      if r != alone[k] {
        Some(r)
      } else {
        None
      }
    };
    for i in 0..n {
      if ctx.over_budget() {
        capped = true;
        return None;
      }
      for j in 0..n {
        if let Some(r) = step(i, &mut hist) {
          return Some((hist.clone(), r));
        }
        if let Some(r) = step(j, &mut hist) {
          return Some((hist.clone(), r));
        }
        pairs_done += 1;
      }
    }
    for &i in triple {
      if ctx.over_budget() {
        capped = true;
        return None;
      }
      for &j in triple {
        for &k in triple {
          for &c in &[i, j, k] {
            if let Some(r) = step(c, &mut hist) {
              return Some((hist.clone(), r));
            }
          }
          triples_done += 1;
        }
      }
    }
    // all ordered quadruples of the first calls of the triple sub-alphabet
    let quad: Vec<usize> = triple.iter().copied().take(QUAD_ALPHABET).collect();
    for &i in &quad {
      if ctx.over_budget() {
        capped = true;
        return None;
      }
      for &j in &quad {
        for &k in &quad {
          for &l in &quad {
            for &c in &[i, j, k, l] {
              if let Some(r) = step(c, &mut hist) {
                return Some((hist.clone(), r));
              }
            }
            quads_done += 1;
          }
        }
      }
    }
    None
  });
  total.stratum("call-sequences:quadruples", quads_done, 4 * quads_done);
  total.validated += 4 * quads_done;
  total.stratum("call-sequences:pairs", pairs_done, 2 * pairs_done);
  total.stratum("call-sequences:triples", triples_done, 3 * triples_done);
  total.validated += 2 * pairs_done + 3 * triples_done;
  if capped {
    total.caps.push(format!("wall budget {}s reached in the call-sequence stratum {}", ctx.budget_s, name));
  }
  if let Some((hist, got)) = found {
    // minimise: the shortest suffix of the history that reproduces the difference in a fresh thread
    let last = *hist.last().unwrap();
    let mut reported = false;
    for len in [2usize, 3, 4, 6, 8, 16, 64, 256, 1024, 4096, hist.len()] {
      let len = len.min(hist.len());
      let suffix = hist[hist.len() - len..].to_vec();
      let r = last_of(alpha, &suffix);
      if r != alone[last] {
        total.viol(violation(name, alpha, suffix, &alone[last], &r, true));
        reported = true;
        break;
      }
      if len == hist.len() {
        break;
      }
    }
    if !reported {
      let suffix = hist[hist.len() - hist.len().min(4096)..].to_vec();
      total.viol(violation(name, alpha, suffix, &alone[last], &got, false));
    }
  }
  let stress = if total.nviol == 0 || std::env::var("HPXMC_FORCE_STRESS").is_ok() { concurrent_stress(ctx, name, alpha, &alone, total) } else { json!("skipped (a violation was already found)") };
  json!({"alphabet": name, "calls": n, "concurrent_stress_sampled": stress, "ordered_pairs": pairs_done, "triple_alphabet": triple.len(), "ordered_triples": triples_done, "quadruple_alphabet": triple.len().min(QUAD_ALPHABET), "ordered_quadruples": quads_done,
    "oracle": "bit-identical to the same call made alone in a fresh thread", "wall_s": t0.elapsed().as_secs_f64()})
}


/// Corroborating pass, NOT part of the exhaustive claim (it samples schedules): `nthreads` free-
/// running threads execute the calls of the alphabet concurrently, each in its own rotation, for a
/// bounded time; every result must equal the result of the call made alone.  The functions are
/// pure, so no schedule can produce a difference on a correct tree; a difference means hidden
/// shared state outside the hook points (which the schedule exploration of C20 cannot reach).
pub fn concurrent_stress(ctx: &Ctx, name: &str, alpha: &[Call], alone: &[Res], total: &mut Part) -> Value {
  use std::sync::atomic::{AtomicBool, AtomicU64, Ordering};
  let n = alpha.len();
  let nthreads = 8usize;
  let budget = std::time::Duration::from_millis(if ctx.quick() { 400 } else { 4000 });
  let t0 = std::time::Instant::now();
  let stop = AtomicBool::new(false);
  let executed = AtomicU64::new(0);
  let first: std::sync::Mutex<Option<(usize, usize, Res)>> = std::sync::Mutex::new(None);
  const STEPS: [usize; 8] = [1, 7, 11, 13, 17, 19, 23, 29];
  // groups of calls sharing the function and its first integer argument (depth / nside): all the
  // threads work on the same group during the same time slice, so that state shared per function
  // and per depth is really contended
  let mut groups: std::collections::BTreeMap<(&str, u64), Vec<usize>> = std::collections::BTreeMap::new();
  for (k, c) in alpha.iter().enumerate() {
    groups.entry((c.f, c.u.first().copied().unwrap_or(u64::MAX))).or_default().push(k);
  }
  let mut groups: Vec<Vec<usize>> = groups.into_values().collect();
  // ... and coarse groups (one per function, all depths mixed; and the whole alphabet): state
  // shared ACROSS depths / functions needs threads working at different depths at the same time
  let mut coarse: std::collections::BTreeMap<&str, Vec<usize>> = std::collections::BTreeMap::new();
  for (k, c) in alpha.iter().enumerate() {
    coarse.entry(c.f).or_default().push(k);
  }
  let nfine = groups.len();
  groups.extend(coarse.into_values());
  groups.push((0..n).collect());
  // half of the time for the fine groups, half for the coarse ones: interleave them
  let mut order: Vec<Vec<usize>> = vec![];
  let ncoarse = groups.len() - nfine;
  for i in 0..nfine.max(ncoarse) {
    order.push(groups[i % nfine].clone());
    order.push(groups[nfine + i % ncoarse].clone());
  }
  let groups = order;
  let slice = budget.as_secs_f64() / groups.len() as f64;
  std::thread::scope(|s| {
    for t in 0..nthreads {
      let (stop, executed, first, groups) = (&stop, &executed, &first, &groups);
      s.spawn(move || {
        let mut done = 0u64;
        let mut pos = t * 7919;
        'outer: loop {
          let el = t0.elapsed().as_secs_f64();
          let gi = (el / slice) as usize;
          if gi >= groups.len() || stop.load(Ordering::Relaxed) {
            break;
          }
          let g = &groups[gi];
          let mut step = STEPS[t % 8];
          while gcd(step, g.len()) != 1 {
            step += 1;
          }
          for _ in 0..64 {
            pos = (pos + step) % g.len();
            let k = g[pos];
            // a thread repeats each call (hit after miss) before moving on
            for _ in 0..2 {
              let r = run(&alpha[k]);
              done += 1;
              if r != alone[k] {
                let mut f = first.lock().unwrap();
                if f.is_none() {
                  *f = Some((t, k, r));
                }
                stop.store(true, Ordering::Relaxed);
                break 'outer;
              }
            }
          }
        }
        executed.fetch_add(done, Ordering::Relaxed);
      });
    }
  });
  let done = executed.load(Ordering::Relaxed);
  // (not added to the state / transition counters: those count exhaustively enumerated work only)
  if let Some((t, k, r)) = first.into_inner().unwrap() {
    total.viol(Viol {
      api: alpha[k].f.to_string(),
      kind: "result-depends-on-concurrent-calls".into(),
      case: json!({"sequence_alphabet": name, "concurrent": true, "sequence": [k], "last_calls": [alpha[k].describe()]}),
      expected: format!("{} = {} (the result of the same call made alone; the functions are pure)", alpha[k].describe(), show(&alone[k])),
      actual: "a different result while other threads were calling the functions of the alphabet (free-running threads: sampled, not exhaustive)".into(),
    });
    let _ = (t, r);
  }
  json!({"threads": nthreads, "calls_executed": done, "wall_s": t0.elapsed().as_secs_f64(), "exhaustive": false,
    "note": "free-running threads (sampling): corroboration only, not counted in the exhaustive bound"})
}

// ---------------------------------------------------------------------------------------------
// race harness (executed under miri): two threads run calls of the alphabet concurrently.  miri
// keeps vector clocks for every memory location: two accesses to one location from two threads,
// one of them a write, with no synchronisation edge between them, are reported as a data race in
// ANY execution that performs both -- independently of their timing.  A cache, memo or scratch
// buffer shared between threads without synchronisation is therefore found deterministically
// (the free-running stress only finds it when the accesses collide).  The harness also compares
// every result with the result of the same call made afterwards, alone.
// ---------------------------------------------------------------------------------------------

/// The (small, hand-written) call list of a property for the race harness: every entry point the
/// property is about, at a small and at a large depth, two values each -- the interpreter is
/// ~1000 times slower than native code, and what matters here is that every function runs on both
/// threads (any unsynchronised shared location it touches is then reported).
fn race_alphabet(id: &str) -> Vec<Call> {
  let c = |f: &'static str, u: &[u64], x: &[f64]| Call::new(f, u, x);
  let pos: [(f64, f64); 2] = [(0.5, 0.25), (4.0, -1.2)];
  let mut a: Vec<Call> = vec![];
  match id {
    "C01" | "C02" => {
      for d in [0u64, 2, 9, 18, 29] {
        for p in pos {
          a.push(c("nested::hash", &[d], &[p.0, p.1]));
        }
      }
    }
    "C03" => {
      for (d, h) in [(2u64, 77u64), (18, 12345678901), (18, 5)] {
        a.push(c("nested::center", &[d, h], &[]));
        a.push(c("nested::vertices", &[d, h], &[]));
        a.push(c("nested::vertex", &[d, h, 1], &[]));
        a.push(c("nested::sph_coo", &[d, h], &[0.25, 0.5]));
        a.push(c("nested::path_along_cell_edge", &[d, h, 0, 1, 2], &[]));
        a.push(c("nested::grid", &[d, h, 2], &[]));
      }
      a.push(c("nested::hash_with_dxdy", &[18], &[0.5, 0.25]));
    }
    "C04" => {
      for (d, h) in [(2u64, 77u64), (2, 0), (18, 12345678901), (18, 5), (29, 1u64 << 58)] {
        a.push(c("nested::neighbours", &[d, h], &[]));
        a.push(c("nested::neighbour", &[d, h, 1], &[]));
        a.push(c("nested::neighbour", &[d, h, 6], &[]));
      }
    }
    "C05" | "C06" => {
      for (d, r) in [(2u64, 0.3), (4, 0.05), (6, 0.003)] {
        for p in pos {
          a.push(c("nested::cone_coverage_approx", &[d], &[p.0, p.1, r]));
        }
        a.push(c("nested::cone_coverage_approx_custom", &[d, 2], &[0.5, 0.25, r]));
        a.push(c("nested::cone_coverage_approx_flat", &[d], &[4.0, -1.2, r]));
      }
    }
    "C07" | "C08" | "C09" => {
      const MARK: u64 = u64::MAX;
      let e = |d: u64, h: u64, f: u64| (d << 58) ^ (h << 1) ^ f;
      let full = if id == "C07" { 1 } else { 0 };
      let x: Vec<u64> = vec![3, e(1, 5, 1), e(2, 24, 1), e(3, 101, full), e(3, 103, 1)];
      let y: Vec<u64> = vec![2, e(2, 21, 1), e(2, 25, full), e(1, 9, 1)];
      for op in 0..4u64 {
        let mut w = vec![op];
        w.extend(&x);
        w.push(MARK);
        w.extend(&y);
        a.push(c("bmoc::op", &w, &[]));
        let mut w2 = vec![op];
        w2.extend(&y);
        w2.push(MARK);
        w2.extend(&x);
        a.push(c("bmoc::op", &w2, &[]));
      }
      a.push(c("nested::cone_coverage_approx", &[3], &[0.5, 0.25, 0.2]));
    }
    "C10" => {
      for (d, h) in [(2u64, 77u64), (2, 3), (12, 150_000_000), (18, 12345678901), (29, 1u64 << 58)] {
        a.push(c("nested::to_ring", &[d, h], &[]));
        a.push(c("nested::from_ring", &[d, h], &[]));
      }
    }
    "C11" => {
      for (n, h) in [(1u64, 5u64), (3, 50), (1000, 7_000_000), (100_003, 70_000_000_000)] {
        a.push(c("ring::center", &[n, h], &[]));
        a.push(c("ring::vertices", &[n, h], &[]));
        a.push(c("ring::sph_coo", &[n, h], &[0.25, 0.5]));
        a.push(c("ring::hash", &[n], &[0.5, 0.25]));
        a.push(c("ring::hash_with_dxdy", &[n], &[4.0, -1.2]));
      }
    }
    "C12" => {
      for d in [2u64, 5] {
        for exact in [0u64, 1] {
          a.push(c("nested::polygon_coverage", &[d, exact], &[0.5, 0.2, 0.7, 0.25, 0.6, 0.4]));
          a.push(c("nested::polygon_coverage", &[d, exact], &[4.0, -1.2, 4.3, -1.25, 4.2, -1.0, 3.9, -1.05]));
        }
      }
    }
    "C13" => {
      for (d, aa, b) in [(2u64, 0.3, 0.1), (5, 0.05, 0.05), (6, 0.004, 0.002)] {
        for p in pos {
          a.push(c("nested::elliptical_cone_coverage", &[d], &[p.0, p.1, aa, b, 0.7]));
        }
        a.push(c("nested::elliptical_cone_coverage_custom", &[d, 1], &[0.5, 0.25, aa, b, 0.7]));
      }
    }
    "C14" => {
      for (d, h, dd) in [(2u64, 77u64, 2u64), (2, 0, 3), (18, 12345678901, 2), (20, 5, 3)] {
        a.push(c("nested::internal_edge", &[d, h, dd], &[]));
        a.push(c("nested::internal_edge_sorted", &[d, h, dd], &[]));
        a.push(c("nested::external_edge", &[d, h, dd], &[]));
        a.push(c("nested::external_edge_sorted", &[d, h, dd], &[]));
      }
    }
    "C16" => {
      for r in [0.5, 0.01, 1e-6] {
        a.push(c("best_starting_depth", &[], &[r]));
      }
      for d in [0u64, 3, 12, 29] {
        for p in pos {
          a.push(c("largest_center_to_vertex_distance", &[d], &[p.0, p.1]));
          a.push(c("largest_center_to_vertex_distance_with_radius", &[d], &[p.0, p.1, 0.1]));
        }
        a.push(c("largest_center_to_vertex_distances_with_radius", &[d, (d + 3).min(29)], &[0.5, 0.25, 0.1]));
      }
    }
    "C17" => {
      for p in [(0.5, 0.25), (4.0, -1.2), (6.0, 1.5), (0.0, 0.0)] {
        a.push(c("proj", &[], &[p.0, p.1]));
        a.push(c("unproj", &[], &[p.0, p.1]));
        a.push(c("base_cell_from_proj_coo", &[], &[p.0, p.1]));
      }
    }
    "C18" => {
      for d in [2u64, 8, 12, 16, 18, 29] {
        let m = (1u64 << d) - 1;
        a.push(c("zoc::ij2h", &[d, 0x2F51A7 & m, 0x10E8C3 & m], &[]));
        a.push(c("zoc::h2ij", &[d, 0x2F51A710E8C3 & ((1u64 << (2 * d)) - 1)], &[]));
        a.push(c("zoc::i02h", &[d, 0x2F51A7 & m], &[]));
        a.push(c("zoc::oj2h", &[d, 0x10E8C3 & m], &[]));
        a.push(c("nested::to_uniq", &[d, 5], &[]));
        a.push(c("nested::to_uniq_ivoa", &[d, 5], &[]));
      }
      a.push(c("nested::from_uniq", &[(16u64 << 36) | 12345], &[]));
      a.push(c("nested::from_uniq_ivoa", &[(4u64 << 36) + 12345], &[]));
    }
    "C19" => {
      for d in [0u64, 2, 9, 18, 29] {
        for p in pos {
          a.push(c("nested::bilinear_interpolation", &[d], &[p.0, p.1]));
        }
      }
    }
    _ => {}
  }
  a
}

pub fn race_harness(id: &str, variant: usize, time_only: bool) -> i32 {
  let t_start = std::time::Instant::now();
  let alpha = race_alphabet(id);
  if alpha.is_empty() {
    println!("RACE {} no alphabet", id);
    return 0;
  }
  if time_only {
    for c in &alpha {
      let t0 = std::time::Instant::now();
      let _ = run(c);
      println!("{:8.3}s {}", t0.elapsed().as_secs_f64(), c.describe());
    }
    println!("total {:.2}s", t_start.elapsed().as_secs_f64());
    return 0;
  }
  let n = alpha.len();
  // thread orders: variant 0 = (forward, backward), 1 = (forward, forward), 2 = (forward, rotated by n/2), ...
  let order = |t: usize| -> Vec<usize> {
    match (variant % 3, t) {
      (_, 0) => (0..n).collect(),
      (0, _) => (0..n).rev().collect(),
      (1, _) => (0..n).collect(),
      _ => (0..n).map(|k| (k + n / 2) % n).collect(),
    }
  };
  let results: Vec<Vec<(usize, Res)>> = std::thread::scope(|s| {
    let hs: Vec<_> = (0..2).map(|t| { let o = order(t); let a = &alpha; s.spawn(move || o.into_iter().map(|k| (k, run(&a[k]))).collect::<Vec<_>>()) }).collect();
    hs.into_iter().map(|h| h.join().expect("race harness thread died")).collect()
  });
  let mut bad = 0;
  for r in results.iter().flatten() {
    let alone = run(&alpha[r.0]);
    if alone != r.1 {
      bad += 1;
      println!("RACE-MISMATCH {} {}: concurrently {} / alone {}", id, alpha[r.0].describe(), show(&r.1), show(&alone));
    }
  }
  println!("RACE {} variant {} calls {} mismatches {}", id, variant, 2 * n, bad);
  if bad > 0 { 1 } else { 0 }
}

fn gcd(a: usize, b: usize) -> usize {
  if b == 0 { a } else { gcd(b, a % b) }
}

/// The hook called by `report::finish`.
pub fn hook(ctx: &Ctx, total: &mut Part) -> Option<Value> {
  let (alpha, triple) = alphabet(&ctx.id)?;
  Some(check_history_independence(ctx, &ctx.id, &alpha, &triple, total))
}

/// Replay of a call-sequence case: the alphabet is rebuilt by name by the property module.
pub fn replay(case: &Value, alpha: &[Call]) -> Option<Viol> {
  let name = case["sequence_alphabet"].as_str().unwrap_or("?").to_string();
  let idx: Vec<usize> = case["sequence"].as_array().expect("sequence").iter().map(|v| v.as_u64().unwrap() as usize).collect();
  if idx.iter().any(|&k| k >= alpha.len()) {
    panic!("seq replay: index out of the alphabet {}", name);
  }
  if case.get("concurrent").is_some() {
    // sampled schedules: repeat the stress a few times; the report text is fixed so that two
    // detections compare equal in the replay protocol
    let alone: Vec<Res> = (0..alpha.len()).map(|k| last_of(alpha, &[k])).collect();
    let ctx = Ctx { id: name.clone(), tier: "thorough".into(), seed: 0, verif_dir: String::new(), start: std::time::Instant::now(), config: "replay".into(), findings: Findings { raw: Value::Null }, budget_s: 60.0 };
    for _ in 0..5 {
      let mut part = Part::new();
      concurrent_stress(&ctx, &name, alpha, &alone, &mut part);
      if let Some(mut v) = part.viols.into_iter().next() {
        v.case = case.clone();
        v.expected = "every call returns the result it returns alone".into();
        return Some(v);
      }
    }
    return None;
  }
  let last = *idx.last().unwrap();
  let alone = last_of(alpha, &[last]);
  let got = last_of(alpha, &idx);
  if got != alone {
    Some(violation(&name, alpha, idx, &alone, &got, true))
  } else {
    None
  }
}

/// The small value set used in every floating-point argument role.
pub fn shared_values() -> Vec<f64> {
  let tl = crate::refm::transition_lat();
  let mut v = vec![0.0, 0.25, -0.25, 0.5, -0.5, 0.7, -0.7, tl, -tl, 0.75, 1.0, -1.0, 1.2, -1.2, 1.5, -1.5, std::f64::consts::FRAC_PI_4, std::f64::consts::FRAC_PI_2, -std::f64::consts::FRAC_PI_2, 2.0, -2.0, 3.0, 5.5];
  v.extend(near_values());
  v
}

/// Values one ulp / 1e-9 away from alphabet values: they collide with them under any key that
/// truncates the argument (f32 cast, fixed-point rounding, integer part).
pub fn near_values() -> Vec<f64> {
  use crate::refm::{next_down, next_up};
  vec![next_up(0.5), next_down(0.5), next_up(1.0), next_down(1.0), 0.5 + 1e-9, 0.7 - 1e-9, 1.0 + 3e-8]
}

// ---------------------------------------------------------------------------------------------
// alphabets (tier independent: a replay rebuilds them by name)
// ---------------------------------------------------------------------------------------------

fn vs() -> Vec<f64> {
  let tl = crate::refm::transition_lat();
  let mut v = vec![0.0, 0.25, -0.25, 0.5, 0.7, tl, -tl, 1.0, -1.2, 1.5, std::f64::consts::FRAC_PI_4, std::f64::consts::FRAC_PI_2, 2.0, 3.0, 5.5];
  v.extend(near_values());
  v
}

fn lats(v: &[f64]) -> Vec<f64> {
  v.iter().copied().filter(|b| b.abs() <= std::f64::consts::FRAC_PI_2).collect()
}

/// Small integers, byte / 16-bit boundaries and the last cells, below `nh`.
fn uvals(nh: u64) -> Vec<u64> {
  let mut v: Vec<u64> = vec![0, 1, 2, 3, 5, 11, 12, 16, 255, 256, 65535, 65536, nh / 2, nh - 1];
  v.retain(|&h| h < nh);
  v.sort();
  v.dedup();
  v
}

const SMALL3: [f64; 3] = [0.0, 0.5, 1.0];

fn triple_of(alpha: &[Call], pred: impl Fn(&Call) -> bool) -> Vec<usize> {
  alpha.iter().enumerate().filter(|(_, c)| pred(c)).map(|(k, _)| k).collect()
}

fn in_small3(c: &Call) -> bool {
  c.x.iter().all(|v| SMALL3.contains(v))
}

fn bm_words(op: u64, a: &Bm, b: &Bm) -> Vec<u64> {
  let enc = |m: &Bm| -> Vec<u64> {
    let mut w = vec![m.depth_max as u64];
    w.extend(m.entries.iter().map(|e| ((e.0 as u64) << 58) ^ (e.1 << 1) ^ (e.2 as u64)));
    w
  };
  let mut u = vec![op];
  u.extend(enc(a));
  u.push(u64::MAX);
  u.extend(enc(b));
  u
}

/// (alphabet, indices of the sub-alphabet whose ordered triples are enumerated too)
pub fn alphabet(id: &str) -> Option<(Vec<Call>, Vec<usize>)> {
  use crate::refm::n_hash;
  let v = vs();
  let la = lats(&v);
  let mut a: Vec<Call> = vec![];
  let triple: Vec<usize>;
  match id {
    "C17" => {
      let sv = shared_values();
      for &p in &sv {
        for &q in &sv {
          if q.abs() <= std::f64::consts::FRAC_PI_2 {
            a.push(Call::new("proj", &[], &[p, q]));
          }
          if q.abs() <= 2.0 {
            a.push(Call::new("unproj", &[], &[p, q]));
            a.push(Call::new("base_cell_from_proj_coo", &[], &[p, q]));
          }
        }
      }
      let small = [0.0, 0.5, -0.5, 0.7, 1.0, 1.5];
      triple = triple_of(&a, |c| c.x.iter().all(|t| small.contains(t)));
    }
    "C01" | "C02" => {
      for d in [0u64, 1, 2, 3, 8, 13, 20, 29] {
        for &lon in &v {
          for &lat in &la {
            a.push(Call::new("nested::hash", &[d], &[lon, lat]));
          }
        }
      }
      triple = triple_of(&a, |c| (c.u[0] == 1 || c.u[0] == 29) && in_small3(c));
    }
    "C03" => {
      for d in [0u64, 1, 2, 8, 20, 29] {
        for h in uvals(n_hash(d as u8)) {
          a.push(Call::new("nested::center", &[d, h], &[]));
          a.push(Call::new("nested::vertices", &[d, h], &[]));
          a.push(Call::new("nested::center_of_projected_cell", &[d, h], &[]));
          for k in 0..4u64 {
            a.push(Call::new("nested::vertex", &[d, h, k], &[]));
          }
          for &dx in &[0.0, 0.5] {
            for &dy in &[0.0, 0.5] {
              a.push(Call::new("nested::sph_coo", &[d, h], &[dx, dy]));
            }
          }
          if h < 4 {
            a.push(Call::new("nested::path_along_cell_edge", &[d, h, 0, 1, 2], &[]));
            a.push(Call::new("nested::grid", &[d, h, 2], &[]));
          }
        }
        for &lon in &[0.0, 0.25, 0.5, 1.0, 5.5] {
          for &lat in &[0.0, 0.5, 1.0, -1.2] {
            a.push(Call::new("nested::hash_with_dxdy", &[d], &[lon, lat]));
          }
        }
      }
      triple = triple_of(&a, |c| (c.u[0] == 1 || c.u[0] == 29) && (c.u.len() < 2 || c.u[1] < 2) && in_small3(c) && c.f != "nested::vertex");
    }
    "C04" => {
      for d in [0u64, 1, 2, 8, 20, 29] {
        for h in uvals(n_hash(d as u8)) {
          a.push(Call::new("nested::neighbours", &[d, h], &[]));
          for k in 0..9u64 {
            a.push(Call::new("nested::neighbour", &[d, h, k], &[]));
          }
        }
      }
      triple = triple_of(&a, |c| (c.u[0] == 1 || c.u[0] == 29) && c.u[1] < 3 && (c.u.len() < 3 || c.u[2] % 4 == 0));
    }
    "C05" | "C06" => {
      for d in [0u64, 3, 6] {
        for &lon in &[0.0, 0.5] {
          for &lat in &[0.5, 1.0, -crate::refm::transition_lat()] {
            for &r in &[0.25, 0.5, 0.01] {
              a.push(Call::new("nested::cone_coverage_approx", &[d], &[lon, lat, r]));
              if lon == 0.5 {
                a.push(Call::new("nested::cone_coverage_approx_custom", &[d, 2], &[lon, lat, r]));
                a.push(Call::new("nested::cone_coverage_approx_flat", &[d], &[lon, lat, r]));
              }
            }
          }
        }
      }
      triple = triple_of(&a, |c| c.u[0] == 3 && c.x[2] != 0.01 && c.x[1] > 0.0 && c.f == "nested::cone_coverage_approx");
    }
    "C07" | "C08" | "C09" => {
      // a dozen small (B)MOCs; every op on every ordered pair is one call
      let partial = id != "C07";
      let f = true;
      let p = !partial; // "partial" entries are full for C07
      let states: Vec<Bm> = vec![
        Bm::new(1, vec![]),
        Bm::new(1, vec![(0, 0, f)]),
        Bm::new(1, vec![(1, 0, f)]),
        Bm::new(1, vec![(1, 1, f), (1, 3, p)]),
        Bm::new(1, vec![(1, 0, p), (1, 1, f), (1, 2, f), (0, 11, f)]),
        Bm::new(2, vec![(2, 0, f), (2, 5, p), (1, 3, f)]),
        Bm::new(2, vec![(0, 0, p), (2, 16, f)]),
        Bm::new(2, vec![(2, 1, f), (2, 2, f), (2, 3, f), (1, 1, p), (0, 11, p)]),
        Bm::new(3, vec![(3, 0, f), (3, 1, f), (3, 2, f), (1, 1, f)]),
        Bm::new(3, vec![(1, 0, f), (3, 64, p), (0, 5, f)]),
        Bm::new(29, vec![(29, 0, f), (1, 1, p)]),
        Bm::new(29, vec![(0, 0, f), (29, n_hash(29) - 1, f)]),
      ];
      for s in &states {
        a.push(Call::new("bmoc::op", &bm_words(0, s, s), &[]));
      }
      for s in &states {
        for t in &states {
          for op in 1..=3u64 {
            a.push(Call::new("bmoc::op", &bm_words(op, s, t), &[]));
          }
        }
      }
      triple = (0..a.len()).step_by(11).collect();
    }
    "C10" => {
      for d in [0u64, 1, 2, 8, 13, 20, 29] {
        for h in uvals(n_hash(d as u8)) {
          a.push(Call::new("nested::to_ring", &[d, h], &[]));
          a.push(Call::new("nested::from_ring", &[d, h], &[]));
        }
      }
      triple = triple_of(&a, |c| (c.u[0] == 1 || c.u[0] == 13 || c.u[0] == 29) && c.u[1] < 4);
    }
    "C11" => {
      for n in [1u64, 2, 3, 4, 5, 7, 255, 256, 1000, 65536] {
        for h in uvals(12 * n * n) {
          a.push(Call::new("ring::center", &[n, h], &[]));
          a.push(Call::new("ring::center_of_projected_cell", &[n, h], &[]));
          a.push(Call::new("ring::vertices", &[n, h], &[]));
          a.push(Call::new("ring::sph_coo", &[n, h], &[0.25, 0.5]));
        }
        for &lon in &[0.25, 0.5, 1.0, 5.5] {
          for &lat in &[0.0, 0.25, 0.5, 1.0, -1.2] {
            a.push(Call::new("ring::hash", &[n], &[lon, lat]));
            a.push(Call::new("ring::hash_with_dxdy", &[n], &[lon, lat]));
          }
        }
      }
      triple = triple_of(&a, |c| (c.u[0] == 3 || c.u[0] == 256) && (c.u.len() < 2 || c.u[1] < 3) && c.x.iter().all(|t| [0.25, 0.5, 1.0].contains(t)) && c.f != "ring::vertices");
    }
    "C12" => {
      let polys: Vec<Vec<f64>> = vec![
        vec![0.0, 0.0, 0.5, 0.0, 0.25, 0.5],
        vec![0.0, 0.5, 0.5, 0.5, 0.5, 1.0, 0.0, 1.0],
        vec![0.25, -0.25, 1.0, -0.25, 1.0, 0.7, 0.5, 0.0, 0.25, 0.7],
        vec![5.5, 0.25, 0.25, 0.25, 0.0, 1.0],
      ];
      for d in [0u64, 3, 6] {
        for p in &polys {
          for ex in 0..2u64 {
            a.push(Call::new("nested::polygon_coverage", &[d, ex], p));
          }
        }
        a.push(Call::new("nested::cone_coverage_approx", &[d], &[0.25, 0.5, 0.25]));
        a.push(Call::new("nested::elliptical_cone_coverage", &[d], &[0.25, 0.5, 0.5, 0.25, 0.5]));
      }
      triple = triple_of(&a, |c| c.u[0] == 3);
    }
    "C13" => {
      for d in [0u64, 3, 6] {
        for &lon in &[0.0, 0.5] {
          for &lat in &[0.5, 1.0] {
            for &(sa, sb) in &[(0.5, 0.25), (0.25, 0.25), (0.7, 0.01)] {
              for &pa in &[0.0, 0.5] {
                a.push(Call::new("nested::elliptical_cone_coverage", &[d], &[lon, lat, sa, sb, pa]));
              }
            }
            a.push(Call::new("nested::elliptical_cone_coverage_custom", &[d, 2], &[lon, lat, 0.5, 0.25, 0.5]));
            a.push(Call::new("nested::cone_coverage_approx", &[d], &[lon, lat, 0.25]));
          }
        }
      }
      triple = triple_of(&a, |c| c.u[0] == 3 && c.x[0] == 0.5 && c.x[2] != 0.7);
    }
    "C14" => {
      for d in [0u64, 1, 2, 8, 20] {
        for h in [0u64, 1, 2, 3, 5, n_hash(d as u8) - 1] {
          if h >= n_hash(d as u8) {
            continue;
          }
          for delta in 1..=3u64 {
            for f in ["nested::internal_edge", "nested::internal_edge_sorted", "nested::external_edge", "nested::external_edge_sorted"] {
              a.push(Call::new(f, &[d, h, delta], &[]));
            }
          }
        }
      }
      a.dedup_by(|p, q| p.f == q.f && p.u == q.u);
      triple = triple_of(&a, |c| (c.u[0] == 1 || c.u[0] == 20) && c.u[1] < 2 && c.u[2] < 3);
    }
    "C16" => {
      for &r in &[0.0, 0.25, 0.5, 0.7, 1.0, 1.2, 1.5, 2.0, 3.0, 0.01, 1e-4, 1e-8] {
        a.push(Call::new("best_starting_depth", &[], &[r]));
      }
      for d in [0u64, 1, 2, 8, 20, 29] {
        for &lon in &[0.0, 0.25, 0.5, 1.0] {
          for &lat in &[0.0, 0.25, 0.5, 1.0, -1.2] {
            a.push(Call::new("largest_center_to_vertex_distance", &[d], &[lon, lat]));
            for &r in &[0.25, 0.5, 0.01] {
              a.push(Call::new("largest_center_to_vertex_distance_with_radius", &[d], &[lon, lat, r]));
            }
          }
        }
      }
      for &(d0, d1) in &[(0u64, 3u64), (1, 8), (8, 20), (20, 29)] {
        for &lat in &[0.25, 0.5, 1.0] {
          a.push(Call::new("largest_center_to_vertex_distances_with_radius", &[d0, d1], &[0.5, lat, 0.25]));
        }
      }
      triple = triple_of(&a, |c| (c.u.is_empty() || c.u[0] == 1 || c.u[0] == 29) && c.x.iter().all(|t| [0.0, 0.25, 0.5, 1.0].contains(t)) && c.x.len() < 4 && (c.x.len() < 3 || c.x[0] == 0.5));
    }
    "C18" => {
      let vals: [u64; 17] = [0, 1, 2, 3, 5, 255, 256, 257, 65535, 65536, 65537, 131071, 131072, 1 << 20, 1 << 24, 1 << 28, (1 << 29) - 1];
      for d in [0u64, 1, 8, 16, 17, 20, 29] {
        let n = 1u64 << d;
        let iv: Vec<u64> = vals.iter().copied().filter(|&i| i < n).collect();
        for &i in &iv {
          a.push(Call::new("zoc::i02h", &[d, i], &[]));
          a.push(Call::new("zoc::oj2h", &[d, i], &[]));
          for &j in &iv {
            a.push(Call::new("zoc::ij2h", &[d, i, j], &[]));
          }
        }
        for &i in iv.iter().step_by(2) {
          for &j in iv.iter().step_by(3) {
            a.push(Call::new("zoc::h2ij", &[d, crate::refm::interleave(i as u32, j as u32)], &[]));
          }
        }
        for h in uvals(n_hash(d as u8)) {
          a.push(Call::new("nested::to_uniq", &[d, h], &[]));
          a.push(Call::new("nested::to_uniq_ivoa", &[d, h], &[]));
          a.push(Call::new("nested::from_uniq", &[(16u64 << (2 * d)) | h], &[]));
          a.push(Call::new("nested::from_uniq_ivoa", &[(4u64 << (2 * d)) + h], &[]));
        }
      }
      triple = triple_of(&a, |c| c.f == "zoc::ij2h" && (c.u[0] == 17 || c.u[0] == 8) && [0u64, 1, 256, 65536].contains(&c.u[1]) && [0u64, 1, 256, 65536].contains(&c.u[2]));
    }
    "C19" => {
      for d in [0u64, 1, 2, 8, 20, 29] {
        for &lon in &v {
          for &lat in &la {
            a.push(Call::new("nested::bilinear_interpolation", &[d], &[lon, lat]));
          }
        }
      }
      triple = triple_of(&a, |c| (c.u[0] == 1 || c.u[0] == 29) && in_small3(c));
    }
    _ => return None,
  }
  Some((a, triple))
}
