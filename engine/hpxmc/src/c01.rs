//! C01 (hash total, in range, contains the point) and C02 (hierarchical prefix) -- shape S.

use crate::alpha::*;
use crate::refm::*;
use crate::report::*;
use cdshealpix::nested;
use serde_json::{json, Map, Value};

fn case_json(depth: u8, lon: f64, lat: f64) -> Value {
  json!({"depth": depth, "lon": f64_json(lon), "lat": f64_json(lat)})
}

/// C01 on one (depth, position). Returns a violation, if any.
pub fn check_c01(depth: u8, lon: f64, lat: f64, xy: (f64, f64), part: &mut Part) -> Option<Viol> {
  journal("nested::hash", || case_json(depth, lon, lat));
  let r = guarded(move || nested::hash(depth, lon, lat));
  match r {
    Err(msg) => Some(Viol {
      api: "nested::hash".into(),
      kind: "panic-in-domain".into(),
      case: case_json(depth, lon, lat),
      expected: "a cell number".into(),
      actual: format!("panic: {}", msg),
    }),
    Ok(h) => {
      part.outcome(hash64(&[depth as u64, h]));
      if h >= n_hash(depth) {
        return Some(Viol {
          api: "nested::hash".into(),
          kind: "out-of-range".into(),
          case: case_json(depth, lon, lat),
          expected: format!("h < {}", n_hash(depth)),
          actual: format!("h = {}", h),
        });
      }
      let o = outside(depth, h, xy.0, xy.1);
      part.validated += 1;
      if !(o <= TOL_PLANE) {
        return Some(Viol {
          api: "nested::hash".into(),
          kind: "not-contained".into(),
          case: case_json(depth, lon, lat),
          expected: format!("a cell containing the projected point ({}, {}) within {:e}", xy.0, xy.1, TOL_PLANE),
          actual: format!("cell {} whose diamond is {:e} plane units (= {:e} cell sizes) away", h, o, o * nside(depth) as f64),
        });
      }
      None
    }
  }
}

/// C02 on one position: the 30 hashes must be prefixes of each other.
pub fn check_c02(lon: f64, lat: f64, part: &mut Part) -> Option<Viol> {
  let mut hs = [0u64; 30];
  for d in 0..30u8 {
    match guarded(move || nested::hash(d, lon, lat)) {
      Ok(h) => hs[d as usize] = h,
      Err(msg) => {
        return Some(Viol {
          api: "nested::hash".into(),
          kind: "panic-in-domain".into(),
          case: case_json(d, lon, lat),
          expected: "a cell number at every depth".into(),
          actual: format!("panic at depth {}: {}", d, msg),
        })
      }
    }
  }
  part.outcome(hs[29]);
  for d in 0..29usize {
    part.validated += 1;
    if hs[d] != hs[29] >> (2 * (29 - d)) {
      // report the closest pair of depths exhibiting the break
      let mut dp = d + 1;
      while dp < 29 && hs[d] == hs[dp] >> (2 * (dp - d)) {
        dp += 1;
      }
      return Some(Viol {
        api: "nested::hash".into(),
        kind: "prefix-broken".into(),
        case: case_json(d as u8, lon, lat),
        expected: format!("hash(depth {}) == hash(depth {}) >> {}", d, dp, 2 * (dp - d)),
        actual: format!("hash(depth {}) = {}, hash(depth {}) = {} (>> gives {})", d, hs[d], dp, hs[dp], hs[dp] >> (2 * (dp - d))),
      });
    }
  }
  None
}

fn check_out_of_domain(part: &mut Part) {
  let bad = [
    next_up(HALF_PI), -next_up(HALF_PI), 2.0, -2.0, f64::INFINITY, f64::NEG_INFINITY, f64::NAN, 1.6, -1.5708,
  ];
  let lons = [0.0, 1.0, -1.0, PI, TWO_PI, 7.5, -12.0, 25.0];
  for &lat in &bad {
    for &lon in &lons {
      for depth in 0..30u8 {
        part.states += 1;
        part.transitions += 1;
        if let Ok(h) = guarded(move || nested::hash(depth, lon, lat)) {
          part.viol(Viol {
            api: "nested::hash".into(),
            kind: "out-of-domain-accepted".into(),
            case: case_json(depth, lon, lat),
            expected: "panic (latitude outside [-pi/2, pi/2])".into(),
            actual: format!("returned {}", h),
          });
        }
      }
    }
  }
}

struct Bounds {
  b: u32,
  nudge_k: i32,
  turns: Vec<f64>,
  deep_nudge_k: i32,
  deep_turns: Vec<f64>,
}

fn bounds(ctx: &Ctx) -> Bounds {
  if ctx.quick() {
    Bounds { b: 5, nudge_k: 2, turns: TURNS_ALL.to_vec(), deep_nudge_k: 1, deep_turns: vec![0.0, -1.0, 3.0] }
  } else {
    Bounds { b: 8, nudge_k: 2, turns: TURNS_ALL.to_vec(), deep_nudge_k: 2, deep_turns: TURNS_ALL.to_vec() }
  }
}

pub fn run(ctx: &Ctx, c02: bool) -> i32 {
  let bd = bounds(ctx);
  // node list: (plane point, nudge radius, turns-set selector)
  let mut nodes: Vec<((f64, f64), bool)> = plane_nodes(bd.b).into_iter().map(|p| (p, false)).collect();
  let n_lattice = nodes.len();
  for d in 0..30u8 {
    for p in deep_border_nodes(d) {
      nodes.push((p, true));
    }
  }
  for &(lon, lat) in generic_points().iter().chain(fibonacci_points(if ctx.quick() { 3000 } else { 100_000 }).iter()) {
    let p = ref_proj(lon, lat);
    nodes.push((p, true)); // fewer nudges / turns: these are generic positions
  }
  let n_nodes = nodes.len();
  let chunk = 512usize;
  let njobs = (n_nodes + chunk - 1) / chunk;
  let mut total = par_jobs(njobs, |job| {
    let mut part = Part::new();
    if ctx.over_budget() {
      part.caps.push(format!("wall budget {}s reached: not all position nodes were visited", ctx.budget_s));
      return part;
    }
    let lo = job * chunk;
    let hi = (lo + chunk).min(n_nodes);
    for idx in lo..hi {
      let ((px, py), deep) = nodes[idx];
      let (lon0, lat0) = ref_unproj(px, py);
      let (k, turns) = if deep { (bd.deep_nudge_k, &bd.deep_turns) } else { (bd.nudge_k, &bd.turns) };
      for (lon1, lat) in nudged(lon0, lat0, k) {
        if lat.abs() > HALF_PI {
          continue; // out of domain: handled separately
        }
        for &t in turns.iter() {
          let lon = lon1 + t * TWO_PI;
          let stratum = if deep { "deep-border" } else if t == 0.0 { "lattice" } else { "lattice-turns" };
          if c02 {
            part.stratum(stratum, 1, 30);
            if let Some(v) = check_c02(lon, lat, &mut part) {
              part.viol(v);
            }
          } else {
            let xy = ref_proj(lon, lat);
            part.stratum(stratum, 30, 30);
            for depth in 0..30u8 {
              if let Some(v) = check_c01(depth, lon, lat, xy, &mut part) {
                part.viol(v);
              }
            }
          }
          if idx % 997 == (ctx.seed.rem_euclid(997)) as usize && t == 0.0 && lat == lat0 && lon1 == lon0 {
            part.sample(case_json((idx % 30) as u8, lon, lat));
          }
        }
      }
    }
    part
  });
  // direct positions: exponent sweep around the critical parallels / meridians, and a sweep of
  // EVERY number of longitude turns of the property's domain ("about [-8 pi, 8 pi]": -4..=4 turns,
  // and the half turns in between) on generic positions.  (The code reduces the longitude with an
  // 8-bit quarter counter, i.e. up to 31 turns; more turns are outside the stated domain.)
  let mut direct: Vec<(f64, f64, &str)> = exponent_sweep_positions().into_iter().map(|(l, b)| (l, b, "exponent-sweep")).collect();
  for &(lon0, lat0) in generic_points().iter().chain(fibonacci_points(48).iter()) {
    for t in -8..=8 {
      let lon = lon0 + t as f64 * PI;
      if lon.abs() <= 8.0 * PI + 1.0 {
        direct.push((lon, lat0, "turns-sweep"));
      }
    }
  }
  // "round" user values (integer degrees), numeric literals of the current sources used as
  // latitudes / longitudes (and as offsets from the critical latitudes), centres of the cells whose
  // two coordinates are integer literals of the sources (mid-word values)
  for (lon, lat) in degree_positions() {
    direct.push((lon, lat, "integer-degrees"));
  }
  let (lit_ints, lit_floats) = source_literals();
  let tl = transition_lat();
  for &x in &lit_floats {
    for s in [-1.0, 1.0] {
      let v = s * x;
      if v.abs() <= HALF_PI {
        direct.push((0.31, v, "source-literals"));
        direct.push((1.0 + PI, v, "source-literals"));
      }
      if v.abs() <= 8.0 * PI {
        direct.push((v, 0.2, "source-literals"));
        direct.push((v, 1.0, "source-literals"));
      }
      if x > 0.0 && x < 0.2 {
        for c in [0.0, tl, -tl, HALF_PI, -HALF_PI] {
          if (c + v).abs() <= HALF_PI {
            direct.push((0.31, c + v, "source-literals"));
          }
        }
      }
    }
  }
  for dd in [18u8, 22, 29] {
    let mut coords = literal_coords(&lit_ints, dd);
    // prefer proper mid-word values; keep at most 250
    coords.sort_by_key(|c| (c.trailing_zeros() < 8, *c));
    coords.truncate(250);
    for &i in &coords {
      for &j in &coords {
        for d0h in [5u8, 1] {
          let (cx, cy) = center_plane(dd, encode(dd, d0h, i, j));
          let (lon, lat) = ref_unproj(cx, cy);
          direct.push((lon, lat, "source-literal-cells"));
          if !ctx.quick() || d0h == 5 {
            continue;
          }
        }
      }
    }
  }
  let dchunk = 256usize;
  let dpart = par_jobs((direct.len() + dchunk - 1) / dchunk, |job| {
    let mut part = Part::new();
    for &(lon, lat, stratum) in &direct[job * dchunk..((job + 1) * dchunk).min(direct.len())] {
      if c02 {
        part.stratum(stratum, 1, 30);
        if let Some(v) = check_c02(lon, lat, &mut part) {
          part.viol(v);
        }
      } else {
        let xy = ref_proj(lon, lat);
        part.stratum(stratum, 30, 30);
        for depth in 0..30u8 {
          if let Some(v) = check_c01(depth, lon, lat, xy, &mut part) {
            part.viol(v);
          }
        }
      }
    }
    part
  });
  total.merge(dpart);
  if !c02 {
    check_out_of_domain(&mut total);
  }
  let bounds = json!({
    "integer_degrees": "every integer degree of latitude x longitudes every 15 degrees", "source_literals": "float literals of /repo/src as latitudes / longitudes / offsets from the critical latitudes; centres of the cells whose coordinates are mid-word integer literals (all ordered pairs of <= 250 values, depths 18, 22, 29)", "exponent_sweep": "critical latitudes / meridians +- 10^-k, 3.3 10^-k (k = 1..17) and 2^-k (k = 4..60 by 4)", "turns_sweep": "every number of half turns -8..=8 (|lon| <= 8 pi + 1) on 58 generic positions",
    "plane_lattice_bits": bd.b, "lattice_nodes": n_lattice, "deep_border_nodes": n_nodes - n_lattice,
    "ulp_nudges": format!("(2*{}+1)^2 lattice, (2*{}+1)^2 deep-border", bd.nudge_k, bd.deep_nudge_k),
    "turns_lattice": bd.turns, "turns_deep_border": bd.deep_turns, "depths": "0..=29 (all)",
  });
  let space = if c02 {
    "every position of the alphabet (lattice nodes of the projection plane + border classes of every depth, with ulp nudges and longitude turns) x all 30 depths (hence all pairs of depths)"
  } else {
    "every position of the alphabet x every depth 0..=29, plus out-of-domain latitudes x 8 longitudes x 30 depths"
  };
  finish(
    ctx,
    total,
    bounds,
    space,
    vec![
      "reference projection R1 and lattice containment R2 (refm.rs), self-checked at start-up".into(),
      "positions not within 2 ulp of an enumerated lattice node / border class are outside the bound".into(),
      "libm sin/asin accurate to a few ulp".into(),
    ],
    Map::new(),
  )
}

pub fn replay(case: &Value, c02: bool) -> Option<Viol> {
  let depth = case["depth"].as_u64().unwrap() as u8;
  let lon = f64_from_json(&case["lon"]);
  let lat = f64_from_json(&case["lat"]);
  let mut part = Part::new();
  if c02 {
    check_c02(lon, lat, &mut part)
  } else if !(lat.abs() <= HALF_PI) {
    match guarded(move || nested::hash(depth, lon, lat)) {
      Ok(h) => Some(Viol {
        api: "nested::hash".into(),
        kind: "out-of-domain-accepted".into(),
        case: case.clone(),
        expected: "panic".into(),
        actual: format!("returned {}", h),
      }),
      Err(_) => None,
    }
  } else {
    check_c01(depth, lon, lat, ref_proj(lon, lat), &mut part)
  }
}
