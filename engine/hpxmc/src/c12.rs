//! C12: polygon coverage keeps the vertex cells, is tight, flags honestly; point-in-polygon
//! predicate -- shape S.

use crate::bm::{Bm, FULL};
use crate::cone::max_c2v;
use crate::refm::*;
use crate::report::*;
use cdshealpix::nested;
use cdshealpix::sph_geom::coo3d::{Coo3D, LonLat};
use cdshealpix::sph_geom::Polygon;
use serde_json::{json, Map, Value};

#[derive(Clone, Debug)]
pub struct PolyQ {
  pub depth: u8,
  pub exact: bool,
  pub vertices: Vec<(f64, f64)>,
  /// construction data (centre, circumradius, convex?) -- recomputed on replay from the JSON
  pub lon: f64,
  pub lat: f64,
  pub radius: f64,
  pub convex: bool,
}

impl PolyQ {
  pub fn to_json(&self) -> Value {
    json!({"depth": self.depth, "exact": self.exact, "convex": self.convex,
      "centre": [f64_json(self.lon), f64_json(self.lat)], "circumradius": f64_json(self.radius),
      "vertices": self.vertices.iter().map(|v| json!([f64_json(v.0), f64_json(v.1)])).collect::<Vec<_>>()})
  }
  pub fn from_json(v: &Value) -> PolyQ {
    PolyQ {
      depth: v["depth"].as_u64().unwrap() as u8,
      exact: v["exact"].as_bool().unwrap(),
      convex: v["convex"].as_bool().unwrap(),
      lon: f64_from_json(&v["centre"][0]),
      lat: f64_from_json(&v["centre"][1]),
      radius: f64_from_json(&v["circumradius"]),
      vertices: v["vertices"].as_array().unwrap().iter().map(|p| (f64_from_json(&p[0]), f64_from_json(&p[1]))).collect(),
    }
  }
}

/// Regular / star-shaped polygon around (lon, lat): `n` vertices at bearings rot + k 2pi/n, radii
/// alternating r and r * inner (inner = 1 => regular, convex).
pub fn make_polygon(lon: f64, lat: f64, n: usize, r: f64, inner: f64, rot: f64, reverse: bool) -> Vec<(f64, f64)> {
  let mut v: Vec<(f64, f64)> = (0..n)
    .map(|k| {
      let bearing = rot + k as f64 * TWO_PI / n as f64;
      let rr = if k % 2 == 1 { r * inner } else { r };
      destination(lon, lat, bearing, rr)
    })
    .collect();
  if reverse {
    v.reverse();
  }
  v
}

/// Reference convex containment: +1 inside, -1 outside, 0 within `margin` (rad) of an edge circle.
/// Written with differences (v2 - v1, p - v1) so that it keeps its precision for polygons far
/// smaller than 1e-8 rad: e = v1 x v2 = v1 x (v2 - v1) and e . p = e . (p - v1) since e . v1 = 0.
fn convex_side(vs: &[[f64; 3]], p: &[f64; 3], margin: f64) -> i32 {
  let n = vs.len();
  let sub = |a: &[f64; 3], b: &[f64; 3]| [a[0] - b[0], a[1] - b[1], a[2] - b[2]];
  let mut inside = true;
  for k in 0..n {
    let v1 = &vs[k];
    let e = cross(v1, &sub(&vs[(k + 1) % n], v1));
    let norm = (e[0] * e[0] + e[1] * e[1] + e[2] * e[2]).sqrt();
    // orientation anchor: the sum of the vertices is on the inner side of every edge
    let s: f64 = vs.iter().map(|v| dot(&e, &sub(v, v1))).sum();
    // for a point far from the polygon (other hemisphere ...) the plain dot product is the accurate one
    let far = dot(p, v1) < 0.9;
    let d = if far { dot(&e, p) } else { dot(&e, &sub(p, v1)) } / norm * if s >= 0.0 { 1.0 } else { -1.0 };
    if d.abs() <= margin {
      return 0;
    }
    if d < 0.0 {
      inside = false;
    }
  }
  if inside { 1 } else { -1 }
}

pub fn check(q: &PolyQ, part: &mut Part) -> Option<Viol> {
  let api = "nested::polygon_coverage";
  let mk = |api: &str, kind: &str, expected: String, actual: String| Some(Viol { api: api.into(), kind: kind.into(), case: q.to_json(), expected, actual });
  let (d, exact) = (q.depth, q.exact);
  let verts = q.vertices.clone();
  journal(api, || q.to_json());
  let out = match guarded(move || Bm::from_impl(&nested::polygon_coverage(d, &verts, exact))) {
    Ok(o) => o,
    Err(m) => return mk(api, "panic", "a coverage".into(), format!("panic: {}", m)),
  };
  part.outcome(hash64(&[out.entries.len() as u64, out.entries.iter().fold(d as u64, |a, e| a.wrapping_mul(1_000_003) ^ (e.1 << 6) ^ ((e.0 as u64) << 1) ^ e.2 as u64)]));
  let map = match out.to_map() {
    Ok(m) => m,
    Err(e) => return mk(api, "malformed-result", "a valid BMOC".into(), format!("{} ({})", out.describe(), e)),
  };
  if out.depth_max != d {
    return mk(api, "wrong-depth-max", format!("depth_max {}", d), out.describe());
  }
  part.validated += 1;
  let covered = |h: u64| -> bool {
    let rs = &map.ranges;
    let idx = rs.partition_point(|r| r.1 <= h);
    idx < rs.len() && rs[idx].0 <= h
  };
  // vertex cells
  for &(l, b) in &q.vertices {
    let h = match guarded(move || nested::hash(d, l, b)) {
      Ok(h) if h < n_hash(d) => h,
      _ => continue,
    };
    if !covered(h) {
      let (x, y) = ref_proj(l, b);
      let mut ok = false;
      if outside(d, h, x, y) >= -1e-12 {
        for (_, nb) in ref_neighbours(d, h) {
          if covered(nb) && outside(d, nb, x, y) <= TOL_PLANE {
            ok = true;
          }
        }
      }
      if !ok {
        return mk(api, "vertex-cell-missing", format!("cell {}/{} of the polygon vertex ({:e}, {:e}) in the coverage", d, h, l, b), out.describe());
      }
    }
  }
  let vs: Vec<[f64; 3]> = q.vertices.iter().map(|&(l, b)| unit_vec(l, b)).collect();
  let c = unit_vec(q.lon, q.lat);
  for &(de, h, full) in &out.entries {
    let n = nside(de) as f64;
    // tightness (polygon inside a cone of radius < 0.3)
    if q.radius < 0.3 {
      let (xc, yc) = center_plane(de, h);
      let (l, b) = ref_unproj(xc, yc);
      let a = ang_dist_vec(&unit_vec(l, b), &c);
      let limit = q.radius + 2.0 * max_c2v(de) + 1e-9;
      if a > limit {
        return mk(api, "not-tight", format!("every cell centre within {:e} + 2 * {:e} of the centre of the bounding cone", q.radius, max_c2v(de)), format!("cell {}/{} has its centre at {:e}", de, h, a));
      }
      // a coarse entry stands for all its descendants: the cells of the requested depth at its four corners
      if de < out.depth_max {
        let dm = out.depth_max;
        let sh = 2 * (dm - de) as u32;
        let ones = (1u64 << sh) - 1;
        let limit = q.radius + 2.0 * max_c2v(dm) + 1e-9;
        for hh in [h << sh, (h << sh) | (ones & 0x5555555555555555), (h << sh) | (ones & 0xAAAAAAAAAAAAAAAA), (h << sh) | ones] {
          let (xc, yc) = center_plane(dm, hh);
          let (l, b) = ref_unproj(xc, yc);
          let a = ang_dist_vec(&unit_vec(l, b), &c);
          if a > limit {
            return mk(api, "not-tight", format!("every cell centre within {:e} + 2 * {:e} of the centre of the bounding cone", q.radius, max_c2v(dm)), format!("cell {}/{}, a descendant of the entry {}/{}, has its centre at {:e}", dm, hh, de, h, a));
          }
        }
      }
    }
    // honest full flag (convex polygons)
    if full && q.convex {
      let (cx, cy) = center_lattice(de, h);
      let mut pts: Vec<(i64, i64)> = vertices_lattice(de, h).to_vec();
      pts.push((cx, cy));
      for (k, (px, py)) in pts.iter().enumerate() {
        let (l, b) = ref_unproj(*px as f64 / n, *py as f64 / n);
        let side = convex_side(&vs, &unit_vec(l, b), (1e-9f64).min(0.02 * q.radius).max(4e-16));
        part.validated += 1;
        if side < 0 {
          return mk(api, "full-flag-untrue", format!("cell {}/{} flagged full has its 4 vertices and its centre inside the polygon", de, h), format!("its {} ({:e}, {:e}) is outside", if k == 4 { "centre".to_string() } else { format!("vertex #{}", k) }, l, b));
        }
      }
    }
  }
  let _ = FULL;
  None
}

/// Point-in-polygon predicate against the geometric definition (convex polygons, radius < 0.3).
pub fn check_contains(q: &PolyQ, part: &mut Part) -> Option<Viol> {
  let vs: Vec<[f64; 3]> = q.vertices.iter().map(|&(l, b)| unit_vec(l, b)).collect();
  let ll: Vec<LonLat> = q.vertices.iter().map(|&(l, b)| LonLat { lon: l, lat: b }).collect();
  let poly = match guarded(move || Polygon::new(ll.into_boxed_slice())) {
    Ok(p) => p,
    Err(m) => return Some(Viol { api: "Polygon::new".into(), kind: "panic".into(), case: q.to_json(), expected: "a polygon".into(), actual: m }),
  };
  let mut probes: Vec<(f64, f64)> = vec![];
  for k in 0..40 {
    let bearing = 0.013 + k as f64 * TWO_PI / 40.0;
    for f in [0.05, 0.3, 0.6, 0.85, 0.99, 1.2, 2.0, 5.0] {
      let r = q.radius * f;
      if r < PI {
        probes.push(destination(q.lon, q.lat, bearing, r));
      }
    }
  }
  probes.push((q.lon, q.lat));
  probes.push(((q.lon + PI).rem_euclid(TWO_PI), -q.lat)); // antipode
  probes.push((0.3, HALF_PI));
  probes.push((0.3, -HALF_PI));
  probes.push((q.lon, -q.lat));
  probes.push(((q.lon + 1.0).rem_euclid(TWO_PI), q.lat));
  for (l, b) in probes {
    let p = unit_vec(l, b);
    let side = convex_side(&vs, &p, (1e-7f64).min(0.02 * q.radius).max(4e-16));
    if side == 0 {
      continue;
    }
    let got = match guarded(|| poly.contains(&Coo3D::from_sph_coo(l, b))) {
      Ok(g) => g,
      Err(m) => return Some(Viol { api: "Polygon::contains".into(), kind: "panic".into(), case: q.to_json(), expected: "a boolean".into(), actual: m }),
    };
    part.validated += 1;
    if got != (side > 0) {
      let mut case = q.to_json();
      case["probe"] = json!([f64_json(l), f64_json(b)]);
      return Some(Viol { api: "Polygon::contains".into(), kind: "wrong-answer".into(), case, expected: format!("{} for the point ({:e}, {:e})", side > 0, l, b), actual: format!("{}", got) });
    }
  }
  None
}

pub fn poly_centres(quick: bool) -> Vec<(f64, f64)> {
  let mut v = vec![
    (0.1234, 0.2345), (1.0, 0.5), (2.7, -0.3), (3.3, 0.70), (4.4, -0.74), (0.0, 0.0), (TWO_PI - 1e-3, 0.1), (1e-3, -0.2),
    (PI / 4.0, 0.0), (PI / 2.0, 0.3), (PI / 2.0, 0.729727656226966), (0.7853, -0.729727656226966), (5.49, 0.0001), (PI / 2.0, 1.0), (0.3, -1.1),
  ];
  if !quick {
    v.extend(vec![(2.0, 0.399), (6.0, -0.41), (PI, 0.9), (3.0 * PI / 2.0, -1.2), (0.7, 1.25), (TWO_PI + 0.4, 0.3), (-0.6, -0.5)]);
  }
  v
}

pub fn queries(quick: bool) -> Vec<PolyQ> {
  let depths: Vec<u8> = if quick { (0..=6).collect() } else { (0..=9).collect() };
  let ns: Vec<usize> = if quick { vec![3, 4, 5, 6, 8] } else { vec![3, 4, 5, 6, 8, 12] };
  let radii = [1e-4, 0.003, 0.02, 0.1, 0.28, 0.5, 0.79];
  let mut v = vec![];
  for &(lon, lat) in &poly_centres(quick) {
    for &r in &radii {
      if lat.abs() + r > HALF_PI - 0.02 {
        continue; // the polygon must not reach a pole
      }
      for &n in &ns {
        for &(inner, convex) in &[(1.0, true), (0.5, false)] {
          if !convex && n < 4 {
            continue;
          }
          // a star-shaped polygon with alternating radii needs an even number of vertices
          if !convex && n % 2 == 1 {
            continue;
          }
          for &rot in &[0.0, 0.37] {
            for &rev in &[false, true] {
              let vertices = make_polygon(lon, lat, n, r, inner, rot, rev);
              for &d in &depths {
                for &exact in &[false, true] {
                  v.push(PolyQ { depth: d, exact, vertices: vertices.clone(), lon, lat, radius: r, convex });
                }
              }
            }
          }
        }
      }
    }
  }
  // longitude representations: the same polygons with every vertex shifted by +-2 pi, and written
  // with UNWRAPPED longitudes across lon = 0 (east part above 2 pi, or west part negative)
  for &(lon, lat) in &[(0.0, 0.0), (TWO_PI - 1e-3, 0.1), (1e-3, -0.2), (0.05, 0.6), (2.7, -0.3)] {
    for &r in &[0.003, 0.1, 0.28] {
      for &n in &[3usize, 4, 5] {
        for &rev in &[false, true] {
          let base = make_polygon(lon, lat, n, r, 1.0, 0.37, rev);
          let reps: Vec<Vec<(f64, f64)>> = vec![
            base.iter().map(|&(l, b)| (l + TWO_PI, b)).collect(),
            base.iter().map(|&(l, b)| (l - TWO_PI, b)).collect(),
            base.iter().map(|&(l, b)| (if l < PI { l + TWO_PI } else { l }, b)).collect(),
            base.iter().map(|&(l, b)| (if l > PI { l - TWO_PI } else { l }, b)).collect(),
            base.iter().map(|&(l, b)| (l + 3.0 * TWO_PI, b)).collect(),
          ];
          for vertices in reps {
            for &d in &[0u8, 3, 5] {
              for &exact in &[false, true] {
                v.push(PolyQ { depth: d, exact, vertices: vertices.clone(), lon, lat, radius: r, convex: true });
              }
            }
          }
        }
      }
    }
  }
  // mid / large depths: polygons a few cells across, around generic (non-border) centres
  let deep: &[u8] = if quick { &[11, 17, 24, 27, 29] } else { &[10, 11, 13, 14, 17, 20, 24, 27, 29] };
  for &d in deep {
    let cell = PI / 3.0f64.sqrt() / (1u64 << d) as f64; // ~ cell side
    for &(lon, lat) in &[(0.1234, 0.2345), (2.7, -0.3), (3.3, 0.70), (4.4, -0.74), (5.49, 0.0001), (1.0, 1.2), (0.3, -1.1), (PI / 2.0, 0.3)] {
      for &k in &[1.5, 6.0, 23.0] {
        let r = k * cell;
        for &n in &[3usize, 5, 8] {
          for &(inner, convex) in &[(1.0, true), (0.5, false)] {
            if !convex && n % 2 == 1 {
              continue;
            }
            for &rev in &[false, true] {
              let vertices = make_polygon(lon, lat, n, r, inner, 0.37, rev);
              for &exact in &[false, true] {
                v.push(PolyQ { depth: d, exact, vertices: vertices.clone(), lon, lat, radius: r, convex });
              }
            }
          }
        }
      }
    }
  }
  // polar neighbourhood, exact mode: polygons 0.1..0.4 rad from a pole, many orientations (the
  // special points of the exact mode are small-circle / great-circle intersections whose two roots
  // sit on either side of the apex of the edge's great circle: that apex is inside or next to an
  // edge only for edges passing close to a pole)
  for &south in &[false, true] {
    for &clat in if quick { &[1.25f64, 1.4][..] } else { &[1.15f64, 1.25, 1.33, 1.4, 1.46][..] } {
      for kl in 0..(if quick { 5 } else { 12 }) {
        let lon = 0.31 + kl as f64 * (TWO_PI / if quick { 5.0 } else { 12.0 });
        let lat = if south { -clat } else { clat };
        for &r in &[0.09, 0.15, 0.25] {
          if clat + r > HALF_PI - 0.02 {
            continue;
          }
          for &n in &[3usize, 4, 5] {
            for kr in 0..(if quick { 4 } else { 8 }) {
              let rot = 0.11 + kr as f64 * (TWO_PI / n as f64) / if quick { 4.0 } else { 8.0 };
              for &rev in &[false, true] {
                let vertices = make_polygon(lon, lat, n, r, 1.0, rot, rev);
                for &d in if quick { &[5u8][..] } else { &[5u8, 7][..] } {
                  v.push(PolyQ { depth: d, exact: true, vertices: vertices.clone(), lon, lat, radius: r, convex: true });
                }
              }
            }
          }
        }
      }
    }
  }
  // deep-large: polygons lying strictly inside ONE cell of their start depth (centred on the centre
  // of a depth-7 cell, a third of that cell across), covered 16 and 17 levels deeper (outputs of
  // ~1e5 cells): only the list of vertex cells can lead the recursion to them
  for &(h7, d) in if quick { &[(17618u64, 23u8)][..] } else { &[(17618u64, 23u8), (17618, 24), (140001, 23), (9, 24)][..] } {
    let (lon, lat) = cdshealpix::nested::center(7, h7);
    let r = 0.3 * PI / 3.0f64.sqrt() / 128.0;
    let shapes: Vec<(Vec<(f64, f64)>, bool)> = vec![
      (make_polygon(lon, lat, 5, r, 1.0, 0.37, false), true),
      (vec![destination(lon, lat, 0.2, r), destination(lon, lat, 0.2 + PI - 0.02, r), destination(lon, lat, 0.2 + PI + 0.02, r)], true),
    ];
    for (vertices, convex) in shapes {
      for &exact in &[false, true] {
        v.push(PolyQ { depth: d, exact, vertices: vertices.clone(), lon, lat, radius: r, convex });
      }
    }
  }
  // vertex-count sweep: EVERY number of vertices 9..=132 (quick) / 520 (thorough) of a "pie slice"
  // (an arc of n - 1 points of the circle of radius r about the centre, finely sampled, and the
  // point of that circle opposite to the arc: all vertices on one small circle in angular order,
  // hence convex; the vertex centroid sits next to the arc and the apex is an outlier) and of the
  // regular n-gon; three cyclic shifts (the apex is the last, the first, a middle vertex), both
  // windings -- a decimation, chunking or buffer threshold on the vertex list acts at one count
  {
    let nmax: usize = if quick { 132 } else { 520 };
    let centres: &[(f64, f64)] = if quick { &[(2.7, -0.3), (6.2, 1.05)] } else { &[(2.7, -0.3), (6.2, 1.05), (0.1234, 0.2345), (4.4, -0.74)] };
    for &(lon, lat) in centres {
      let r = 0.1;
      for n in 9..=nmax {
        let m = n - 1;
        // a wide slice (arc of 0.9 rad of bearing) and a thin one (0.16 rad: the arc is 20 times
        // smaller than the slice is long)
        let mk_wedge = |alpha: f64| -> Vec<(f64, f64)> {
          let mut wedge: Vec<(f64, f64)> = (0..m).map(|k| destination(lon, lat, 0.7 - alpha + 2.0 * alpha * k as f64 / (m - 1) as f64, r)).collect();
          wedge.push(destination(lon, lat, 0.7 + PI, r));
          wedge
        };
        let shapes = [mk_wedge(0.45), mk_wedge(0.08), make_polygon(lon, lat, n, r, 1.0, 0.37, false)];
        for (si, base) in shapes.iter().enumerate() {
          for &shift in if si <= 1 { &[0usize, 1, 2][..] } else { &[0usize][..] } {
            let sh = match shift { 0 => 0, 1 => n - 1, _ => n / 2 + 1 };
            for &rev in &[false, true] {
              let mut vertices: Vec<(f64, f64)> = (0..n).map(|k| base[(k + sh) % n]).collect();
              if rev {
                vertices.reverse();
              }
              for &d in if quick { &[7u8][..] } else { &[4u8, 8][..] } {
                for &exact in &[false, true] {
                  v.push(PolyQ { depth: d, exact, vertices: vertices.clone(), lon, lat, radius: r, convex: true });
                }
              }
            }
          }
        }
      }
    }
  }
  for &(lon, lat) in &poly_centres(quick) {
    for &r in &radii {
      if lat.abs() + r > HALF_PI - 0.02 {
        continue;
      }
      // elongated convex shapes (a thin triangle and a kite), every cyclic order of the vertices
      // and both windings: the first vertex is in turn the far apex, a base vertex, ...
      for &rot in &[0.2, 1.9, 4.0] {
        let shapes: Vec<Vec<(f64, f64)>> = vec![
          vec![(rot, r), (rot + PI - 0.15, 0.35 * r), (rot + PI + 0.15, 0.35 * r)],
          vec![(rot, r), (rot + HALF_PI, 0.15 * r), (rot + PI, 0.4 * r), (rot - HALF_PI, 0.15 * r)],
        ];
        for shape in shapes {
          let base: Vec<(f64, f64)> = shape.iter().map(|&(bearing, rr)| destination(lon, lat, bearing, rr)).collect();
          for shift in 0..base.len() {
            for &rev in &[false, true] {
              let mut vertices: Vec<(f64, f64)> = (0..base.len()).map(|k| base[(k + shift) % base.len()]).collect();
              if rev {
                vertices.reverse();
              }
              for &d in &depths {
                for &exact in &[false, true] {
                  v.push(PolyQ { depth: d, exact, vertices: vertices.clone(), lon, lat, radius: r, convex: true });
                }
              }
            }
          }
        }
      }
    }
  }
  v
}

pub fn run(ctx: &Ctx) -> i32 {
  let qs = queries(ctx.quick());
  let _ = max_c2v(0);
  let chunk = 64;
  let njobs = (qs.len() + chunk - 1) / chunk;
  let total = par_jobs(njobs, |j| {
    let mut part = Part::new();
    if ctx.over_budget() {
      part.caps.push(format!("wall budget {}s reached in C12 enumeration", ctx.budget_s));
      return part;
    }
    for (k, q) in qs[j * chunk..((j + 1) * chunk).min(qs.len())].iter().enumerate() {
      part.stratum(if q.convex { "convex" } else { "star-shaped" }, 1, 1);
      if let Some(v) = check(q, &mut part) {
        part.viol(v);
      }
      if q.convex && q.radius < 0.3 && q.depth == 0 && !q.exact {
        part.stratum("point-in-polygon", 1, 326);
        if let Some(v) = check_contains(q, &mut part) {
          part.viol(v);
        }
      }
      if k == 0 && j % 53 == (ctx.seed.rem_euclid(53)) as usize {
        part.sample(q.to_json());
      }
    }
    part
  });
  finish(
    ctx,
    total,
    json!({"queries": qs.len(), "polygons": "regular n-gons (convex), star-shaped variants (alternate radii x 0.5), thin triangles and kites in every cyclic vertex order, around 15 / 22 centres incl. lon ~ 0 / 2pi crossings, base-cell seams, transition parallels, polar caps short of the poles",
      "circumradii": [1e-4, 0.003, 0.02, 0.1, 0.28, 0.5, 0.79], "rotations": [0.0, 0.37], "windings": 2, "modes": ["approx", "exact"],
      "point_in_polygon": "326 probes (40 bearings x 8 radial factors + centre, antipode, poles, mirrored points) per convex polygon of circumradius < 0.3"}),
    "every (polygon, depth, mode) combination of the alphabets",
    vec!["R1/R2 + sphere helpers R6 (convex containment with the vertex sum as orientation anchor)".into(), "no no-miss claim for polygons (the property makes none); self-intersecting polygons and polygons reaching a pole are excluded as in the statement".into()],
    Map::new(),
  )
}

pub fn replay(case: &Value) -> Option<Viol> {
  let q = PolyQ::from_json(case);
  let mut part = Part::new();
  check(&q, &mut part).or_else(|| if q.convex && q.radius < 0.3 { check_contains(&q, &mut part) } else { None })
}
