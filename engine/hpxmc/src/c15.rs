//! C15: BMOC builders preserve exactly what was pushed -- shape E over push histories,
//! plus all valid entry sequences for pack / lower-depth.

use crate::bm::*;
use crate::c07::{staircase, universe, Chain, UniverseSpec};
use crate::report::*;
use cdshealpix::nested::bmoc::{BMOCBuilderFixedDepth, BMOCBuilderUnsafe};
use serde_json::{json, Map, Value};

fn hist_case(depth: u8, full: bool, cap: usize, pushes: &[u64]) -> Value {
  json!({"kind": "history", "depth": depth, "is_full": full, "capacity": cap, "pushes": pushes.iter().map(|h| h.to_string()).collect::<Vec<_>>()})
}

/// Run one push history on the real builder and compare with the reference set model.
pub fn check_history(depth: u8, full: bool, cap: usize, pushes: &[u64], part: &mut Part) -> Option<Viol> {
  let api = "BMOCBuilderFixedDepth";
  journal(api, || hist_case(depth, full, cap, pushes));
  let pv = pushes.to_vec();
  let r = guarded(move || {
    let mut b = BMOCBuilderFixedDepth::with_capacity(depth, full, cap);
    for &h in &pv {
      b.push(h);
    }
    b.to_bmoc()
  });
  let mk = |kind: &str, expected: String, actual: String| Some(Viol { api: api.into(), kind: kind.into(), case: hist_case(depth, full, cap, pushes), expected, actual });
  let res = match r {
    Ok(r) => r,
    Err(m) => return mk("panic", "a BMOC".into(), format!("panic: {}", m)),
  };
  part.validated += 1;
  // reference: the set of pushed cells, all with the flag
  let mut set: Vec<u64> = pushes.to_vec();
  set.sort();
  set.dedup();
  let st = if full { FULL } else { PARTIAL };
  let mut ranges: Vec<(u64, u64, u8)> = vec![];
  for &h in &set {
    if let Some(l) = ranges.last_mut() {
      if l.1 == h {
        l.1 = h + 1;
        continue;
      }
    }
    ranges.push((h, h + 1, st));
  }
  let expected = RangeMap { depth, ranges };
  match res {
    None => {
      if !pushes.is_empty() {
        return mk("nothing-returned", expected.describe(), "None".into());
      }
      None
    }
    Some(b) => {
      if pushes.is_empty() {
        return mk("something-from-nothing", "None (nothing was pushed)".into(), Bm::from_impl(&b).describe());
      }
      let out = Bm::from_impl(&b);
      part.outcome(hash64(&[out.entries.len() as u64, out.entries.iter().fold(0u64, |a, e| a.wrapping_mul(1_000_003) ^ (e.1 << 6) ^ ((e.0 as u64) << 1) ^ e.2 as u64)]));
      let got = match out.to_map() {
        Ok(m) => m,
        Err(e) => return mk("malformed-result", expected.describe(), format!("{} ({})", out.describe(), e)),
      };
      if out.depth_max != depth || got != expected {
        return mk("wrong-map", expected.describe(), format!("{} = {}", out.describe(), got.describe()));
      }
      None
    }
  }
}


/// A long history given as runs (start, length) of consecutive cells pushed in order, followed by
/// single extra cells: executed on the real builder, compared with the range model WITHOUT
/// materialising the pushes in the replay file.
pub fn check_runs(depth: u8, full: bool, cap: usize, runs: &[(u64, u64)], part: &mut Part) -> Option<Viol> {
  let r3: Vec<(u64, u64, u64)> = runs.iter().map(|&(s, l)| (s, l, 1)).collect();
  check_strided_runs(depth, full, cap, &r3, part)
}

/// Runs (start, count, stride): `count` cells start, start + stride, ... pushed in order.
pub fn check_strided_runs(depth: u8, full: bool, cap: usize, runs: &[(u64, u64, u64)], part: &mut Part) -> Option<Viol> {
  let api = "BMOCBuilderFixedDepth";
  journal("BMOCBuilderFixedDepth", || json!({"kind": "runs", "depth": depth, "is_full": full, "capacity": cap, "runs": runs.iter().map(|r| json!([r.0.to_string(), r.1.to_string(), r.2.to_string()])).collect::<Vec<_>>()}));
  let rv = runs.to_vec();
  let r = guarded(move || {
    let mut b = BMOCBuilderFixedDepth::with_capacity(depth, full, cap);
    for &(s, l, st) in &rv {
      for k in 0..l {
        b.push(s + k * st);
      }
    }
    b.to_bmoc()
  });
  let case = json!({"kind": "runs", "depth": depth, "is_full": full, "capacity": cap, "runs": runs.iter().map(|r| json!([r.0.to_string(), r.1.to_string(), r.2.to_string()])).collect::<Vec<_>>()});
  let mk = |kind: &str, expected: String, actual: String| Some(Viol { api: api.into(), kind: kind.into(), case: case.clone(), expected, actual });
  let res = match r {
    Ok(Some(r)) => r,
    Ok(None) => return mk("nothing-returned", "a BMOC".into(), "None".into()),
    Err(m) => return mk("panic", "a BMOC".into(), format!("panic: {}", m)),
  };
  part.validated += 1;
  let st = if full { FULL } else { PARTIAL };
  let mut rs: Vec<(u64, u64)> = vec![];
  for &(s, l, stride) in runs {
    if stride == 1 {
      rs.push((s, s + l));
    } else {
      rs.extend((0..l).map(|k| (s + k * stride, s + k * stride + 1)));
    }
  }
  rs.sort();
  let mut ranges: Vec<(u64, u64, u8)> = vec![];
  for (s, e) in rs {
    if let Some(l) = ranges.last_mut() {
      if l.1 >= s {
        l.1 = l.1.max(e);
        continue;
      }
    }
    ranges.push((s, e, st));
  }
  let expected = RangeMap { depth, ranges };
  let out = Bm::from_impl(&res);
  part.outcome(hash64(&[out.entries.len() as u64, out.entries.first().map(|e| e.1).unwrap_or(0), out.entries.last().map(|e| e.1).unwrap_or(0)]));
  let got = match out.to_map() {
    Ok(m) => m,
    Err(e) => return mk("malformed-result", expected.describe(), format!("{} entries ({})", out.entries.len(), e)),
  };
  if out.depth_max != depth || got != expected {
    return mk("wrong-map", expected.describe(), format!("{} entries = {}", out.entries.len(), got.describe()));
  }
  None
}

fn seq_case(op: &str, bm: &Bm, new_depth: Option<u8>) -> Value {
  json!({"kind": "sequence", "op": op, "input": bm.to_json(), "new_depth": new_depth})
}

/// pack / lower-depth on one valid entry sequence.
pub fn check_sequence(op: &str, bm: &Bm, new_depth: Option<u8>, part: &mut Part) -> Option<Viol> {
  let api = format!("BMOCBuilderUnsafe::{}", op);
  let input = bm.to_map().expect("universe states are valid");
  let entries = bm.entries.clone();
  let dm = bm.depth_max;
  let opn = op.to_string();
  journal(&api, || seq_case(op, bm, new_depth));
  let r = guarded(move || {
    let mut b = BMOCBuilderUnsafe::new(dm, entries.len().max(1));
    for &(d, h, f) in &entries {
      b.push(d, h, f);
    }
    match opn.as_str() {
      "to_bmoc_packing" => b.to_bmoc_packing(),
      "to_lower_depth_bmoc" => b.to_lower_depth_bmoc(new_depth.unwrap()),
      _ => b.to_lower_depth_bmoc_packing(new_depth.unwrap()),
    }
  });
  let mk = |kind: &str, expected: String, actual: String| Some(Viol { api: api.clone(), kind: kind.into(), case: seq_case(op, bm, new_depth), expected, actual });
  let res = match r {
    Ok(r) => r,
    Err(m) => return mk("panic", "a BMOC".into(), format!("panic: {}", m)),
  };
  part.validated += 1;
  let out = Bm::from_impl(&res);
  let got = match out.to_map() {
    Ok(m) => m,
    Err(e) => return mk("malformed-result", "a valid BMOC".into(), format!("{} ({})", out.describe(), e)),
  };
  if op == "to_bmoc_packing" {
    if out.depth_max != dm || got != input {
      return mk("map-changed", input.describe(), format!("{} = {}", out.describe(), got.describe()));
    }
    if let Some(e) = RangeMap::has_four_full_siblings(&out) {
      return mk("not-packed", "no four full sibling cells".into(), format!("{} still has the four full siblings starting at {}/{}", out.describe(), e.0, e.1));
    }
    return None;
  }
  let nd = new_depth.unwrap();
  if out.depth_max != nd {
    return mk("wrong-depth-max", format!("depth_max {}", nd), out.describe());
  }
  // per coarse cell: present iff non-empty slice; full only if the slice is all full
  let sh = 2 * (dm - nd) as u32;
  let state_at = |m: &RangeMap, s: u64, e: u64| -> (bool, bool) {
    // (any non absent, all full) over [s, e)
    let mut any = false;
    let mut covered_full = 0u64;
    for &(a, b, st) in &m.ranges {
      let lo = a.max(s);
      let hi = b.min(e);
      if lo < hi {
        any = true;
        if st == FULL {
          covered_full += hi - lo;
        }
      }
    }
    (any, covered_full == e - s)
  };
  for c in 0..n_hash(nd) {
    let (any, all_full) = state_at(&input, c << sh, (c + 1) << sh);
    let (o_any, o_all_full) = state_at(&got, c, c + 1);
    if any != o_any {
      return mk("wrong-presence", format!("cell {}/{} {} (input {})", nd, c, if any { "present" } else { "absent" }, input.describe()), format!("{} = {}", out.describe(), got.describe()));
    }
    if o_all_full && !all_full {
      return mk("full-but-not-entirely-covered", format!("cell {}/{} not flagged full (input {})", nd, c, input.describe()), format!("{}", out.describe()));
    }
  }
  None
}

fn alphabet(depth: u8, quick: bool) -> Vec<u64> {
  let nh = n_hash(depth);
  let mut v: Vec<u64> = if quick {
    vec![0, 1, 2, 3, 4, 5, 15, 16, 17, 18, 19, nh - 2, nh - 1]
  } else {
    vec![0, 1, 2, 3, 4, 5, 6, 7, 15, 16, 17, 18, 19, 20, 63, 64, nh - 4, nh - 3, nh - 2, nh - 1]
  };
  v.retain(|&h| h < nh);
  v.sort();
  v.dedup();
  v
}

pub fn run(ctx: &Ctx) -> i32 {
  let quick = ctx.quick();
  let caps: Vec<usize> = vec![1, 2, 3, 4, 5, 8, 100];
  // --- push histories: all sequences over the alphabet up to length L
  let (hist_depth, max_len): (u8, usize) = if quick { (2, 5) } else { (3, 6) };
  let alpha = alphabet(hist_depth, quick);
  let na = alpha.len();
  // jobs: one per (first two symbols) prefix
  let njobs_hist = na * na;
  enum Job {
    Hist(usize),
    Runs(u8, u64),
    Seq(usize, usize),
    Small(u8),
    Bulk(u8, u64),
    Sweep(u64, u64),
    Stairs(usize, usize),
    Pow4(u32),
    LongScatter(u32),
    Alias(u8),
    Blocks(u8, u8),
    SiblingShapes(u8),
    SameNumber,
  }
  let mut jobs: Vec<Job> = (0..njobs_hist).map(Job::Hist).collect();
  let run_depths: Vec<u8> = if quick { vec![3] } else { vec![3, 4, 6] };
  for &d in &run_depths {
    for start in [0u64, 1, 2, 3, 4, 5, 15, 16, 17, 60, 63, 64, 128] {
      jobs.push(Job::Runs(d, start));
    }
  }
  for d in [0u8, 1, 29] {
    jobs.push(Job::Small(d));
  }
  // many buffered pushes: thousands of cells with clusters, long aligned runs and duplicates
  for &(d, salt) in if quick { &[(6u8, 1u64), (9, 2)][..] } else { &[(6u8, 1u64), (9, 2), (12, 3), (18, 4), (29, 5)][..] } {
    jobs.push(Job::Bulk(d, salt));
  }
  // size sweep: a whole tile (packed into one coarse cell at the first drain), then n of its cells
  // pushed again + cells after the tile, for EVERY n up to the bound (a drain = `or` of the coarse
  // cell with n covered entries)
  let sweep_max: u64 = if quick { 340 } else { 4200 };
  {
    let mut lo = 1u64;
    while lo <= sweep_max {
      jobs.push(Job::Sweep(lo, (lo + 19).min(sweep_max)));
      lo += 20;
    }
  }
  let seq_universe = universe(&UniverseSpec { name: "seq", dmax: 2, chain: Chain::First, partial: true, unpacked: true, other_bases: &[11], all_depth_max: true });
  let seq_universe3 = if quick { vec![] } else { universe(&UniverseSpec { name: "seq3", dmax: 3, chain: Chain::Last, partial: false, unpacked: true, other_bases: &[], all_depth_max: true }) };
  let all_seq: Vec<Bm> = seq_universe.into_iter().chain(seq_universe3.into_iter()).collect();
  // merge cascades: every cascade length 1..=29 on 3k + 1 entries (staircases), 4 child paths,
  // all full / one partial stair (the cascade must stop there) / partial last cell
  let mut stairs: Vec<Bm> = vec![];
  for dm in 1..=29u8 {
    for (top, root) in [(0u8, 5u64), (2, 117)] {
      if top >= dm {
        continue;
      }
      for path in 0..4u8 {
        let (mut e, last) = staircase(top, root, dm, path);
        e.push(last);
        e.sort_by_key(|x| x.1 << (2 * (dm - x.0) as u32));
        stairs.push(Bm::new(dm, e.clone()));
        let mut e2 = e.clone();
        let mid = e2.len() / 2;
        e2[mid].2 = false;
        stairs.push(Bm::new(dm, e2));
        let mut e3 = e.clone();
        let k = e3.iter().position(|x| *x == last).unwrap();
        e3[k].2 = false;
        stairs.push(Bm::new(dm, e3));
      }
    }
  }
  {
    let mut lo = 0;
    while lo < stairs.len() {
      jobs.push(Job::Stairs(lo, (lo + 64).min(stairs.len())));
      lo += 64;
    }
  }
  // runs whose length is next to a power of four, from an aligned start (every k up to 11 / 12):
  // the packing arithmetic of the builder (log4 of the run length) changes there
  for k in 1..=(if quick { 11u32 } else { 12 }) {
    jobs.push(Job::Pow4(k));
  }
  // long histories of cells that do not merge: 2^k - 1, 2^k, 2^k + 1 scattered cells (stride 3),
  // several buffer capacities (a builder switching strategy for "large" inputs does it at a power
  // of two), then a packed tile pushed again over the beginning of the scattered cells
  for k in 10..=(if quick { 16u32 } else { 20 }) {
    jobs.push(Job::LongScatter(k));
  }
  // word-size aliases: cells that continue a run only modulo 2^8, 2^16, 2^32 (a difference or an
  // index kept in a narrower integer makes them look consecutive), every depth where they exist
  for d in 5..=29u8 {
    jobs.push(Job::Alias(d));
  }
  // several complete blocks of different heights: block (t, l) = the 4^l cells of depth t + l filling
  // one cell of depth t (l packing passes merge it); two and three blocks in distinct cells, every
  // (t1, l1) x (t2, l2) with t <= 3, l <= 3 -- one pass then merges at several depths at once
  for l1 in 1..=3u8 {
    for l2 in 1..=3u8 {
      jobs.push(Job::Blocks(l1, l2));
    }
  }
  // sibling-group shapes: the four children of one cell, each of them absent / full / partial /
  // holding one full grandchild (first or last) / one partial grandchild / its four full children:
  // all 7^4 combinations, under three parent cells, packed -- "four full siblings merge, nothing
  // else does" is a statement about exactly these shapes
  for v in 0..3u8 {
    jobs.push(Job::SiblingShapes(v));
  }
  jobs.push(Job::SameNumber);
  let chunk = 256;
  let mut lo = 0;
  while lo < all_seq.len() {
    jobs.push(Job::Seq(lo, (lo + chunk).min(all_seq.len())));
    lo += chunk;
  }
  let total = par_jobs(jobs.len(), |j| {
    let mut part = Part::new();
    if ctx.over_budget() {
      part.caps.push(format!("wall budget {}s reached in C15 enumeration", ctx.budget_s));
      return part;
    }
    match &jobs[j] {
      Job::Hist(pfx) => {
        let (a0, a1) = (pfx / na, pfx % na);
        // sequences of length 0, 1 are generated by job 0 only; length >= 2 start with (a0, a1)
        let mut seqs: Vec<Vec<u64>> = vec![];
        if *pfx == 0 {
          seqs.push(vec![]);
          for &x in &alpha {
            seqs.push(vec![x]);
          }
        }
        let mut stack: Vec<Vec<u64>> = vec![vec![alpha[a0], alpha[a1]]];
        while let Some(s) = stack.pop() {
          if s.len() < max_len {
            for &x in &alpha {
              let mut t = s.clone();
              t.push(x);
              stack.push(t);
            }
          }
          seqs.push(s);
        }
        for s in &seqs {
          for &cap in &caps {
            for full in [true, false] {
              part.stratum("push-histories", 1, 1);
              if let Some(v) = check_history(hist_depth, full, cap, s, &mut part) {
                part.viol(v);
              }
            }
          }
        }
        if *pfx == (ctx.seed.rem_euclid(njobs_hist as i64)) as usize {
          part.sample(hist_case(hist_depth, true, 3, &seqs[seqs.len() / 2]));
        }
      }
      Job::Runs(d, start) => {
        let nh = n_hash(*d);
        for len in 1..=(if quick { 70u64 } else { 300 }) {
          if start + len > nh {
            break;
          }
          let asc: Vec<u64> = (*start..start + len).collect();
          let desc: Vec<u64> = asc.iter().rev().cloned().collect();
          let mut inter: Vec<u64> = asc.iter().cloned().filter(|h| h % 2 == 0).collect();
          inter.extend(asc.iter().cloned().filter(|h| h % 2 == 1));
          let mut dup: Vec<u64> = asc.clone();
          dup.extend(asc.iter().cloned());
          let mut dup2: Vec<u64> = vec![];
          for &h in &asc {
            dup2.push(h);
            dup2.push(h);
            dup2.push(asc[0]);
          }
          // a gap in the run and a far away cell
          let mut gap: Vec<u64> = asc.iter().cloned().filter(|&h| h != start + len / 2).collect();
          gap.push(nh - 1);
          for seq in [&asc, &desc, &inter, &dup, &dup2, &gap] {
            for &cap in &[1usize, 2, 3, 4, 5, 7, 8, 16, 17, 64, 100, 1000] {
              for full in [true, false] {
                part.stratum("runs", 1, 1);
                if let Some(v) = check_history(*d, full, cap, seq, &mut part) {
                  part.viol(v);
                }
              }
            }
          }
        }
      }
      Job::Small(d) => {
        let nh = n_hash(*d);
        let cells: Vec<u64> = if *d <= 1 { (0..nh).collect() } else { vec![0, 1, 2, 3, 4, nh / 2, nh - 5, nh - 4, nh - 3, nh - 2, nh - 1] };
        // all subsets (d = 0: 4096; else prefixes/suffixes), pushed ascending and descending
        let nsub: u64 = if cells.len() <= 12 { 1 << cells.len() } else { 0 };
        for mask in 0..nsub {
          let sub: Vec<u64> = cells.iter().enumerate().filter(|(k, _)| mask >> k & 1 == 1).map(|(_, &h)| h).collect();
          let rev: Vec<u64> = sub.iter().rev().cloned().collect();
          for seq in [&sub, &rev] {
            for &cap in &[1usize, 3, 4, 100] {
              part.stratum("depth-0-1-29-subsets", 1, 1);
              if let Some(v) = check_history(*d, mask % 2 == 0, cap, seq, &mut part) {
                part.viol(v);
              }
            }
          }
        }
        if *d == 1 {
          // all 48 cells, every rotation, a few capacities
          for rot in 0..48usize {
            let seq: Vec<u64> = (0..48u64).map(|k| (k + rot as u64) % 48).collect();
            for &cap in &[1usize, 4, 5, 16, 47, 48, 49] {
              part.stratum("depth-0-1-29-subsets", 1, 1);
              if let Some(v) = check_history(1, true, cap, &seq, &mut part) {
                part.viol(v);
              }
            }
          }
        }
      }
      Job::Bulk(d, salt) => {
        // deterministic multiset: clusters around pseudo-random anchors, two long aligned runs, repeats
        let nh = n_hash(*d);
        let mut cells: Vec<u64> = vec![];
        let mut x: u64 = 0x9E37_79B9_7F4A_7C15u64.wrapping_mul(*salt);
        let mut next = || {
          x ^= x << 13;
          x ^= x >> 7;
          x ^= x << 17;
          x
        };
        for _ in 0..60 {
          let anchor = next() % nh;
          let len = 1 + next() % 90;
          for k in 0..len {
            if anchor + k < nh {
              cells.push(anchor + k);
            }
          }
        }
        let a1 = (next() % (nh / 4096)) * 4096;
        cells.extend(a1..(a1 + 4096).min(nh)); // a whole coarse cell
        let a2 = (next() % (nh / 1024)) * 1024 + 3;
        cells.extend(a2..(a2 + 1500).min(nh)); // an unaligned long run
        for k in 0..400 {
          let idx = (next() % cells.len() as u64) as usize;
          let c = cells[idx];
          cells.push(c); // duplicates
          let _ = k;
        }
        // thousands of NON-consecutive cells inside one aligned coarse cell whose first sub-cell is
        // pushed (every 2nd / 3rd cell of a 4^7-cell tile, and a tile with a few holes)
        if *d >= 7 {
          let tile = 1u64 << 14;
          let t0 = (next() % (nh / tile)) * tile;
          let stride = 2 + (*salt % 2);
          cells.extend((0..tile).step_by(stride as usize).map(|k| t0 + k));
          let t1 = (t0 + 5 * tile) % nh;
          cells.extend((0..tile).filter(|k| k % 1000 != 999).map(|k| t1 + k));
        }
        // clustered sets ALONE in the buffer: thousands of non-consecutive cells of one tile
        // (typical of a catalogue restricted to one coarse cell)
        let mut alone: Vec<Vec<u64>> = vec![];
        if *d >= 7 {
          for (tile_bits, stride) in [(14u32, 3u64), (14, 2), (16, 7)] {
            let tile = 1u64 << tile_bits;
            if tile > nh {
              continue;
            }
            let t0 = (next() % (nh / tile)) * tile;
            alone.push((0..tile).step_by(stride as usize).map(|k| t0 + k).collect());
            // pseudo-random cells of the tile, first cell included, pushed unordered with repeats
            let mut v: Vec<u64> = vec![t0];
            for _ in 0..5000 {
              v.push(t0 + next() % tile);
            }
            alone.push(v);
          }
        }
        for seq in &alone {
          for &cap in &[1000usize, 5000, 9001, 1_000_000] {
            for full in [true, false] {
              part.stratum("bulk-pushes-one-tile", 1, 1);
              if let Some(v) = check_history(*d, full, cap, seq, &mut part) {
                part.viol(v);
              }
            }
          }
        }
        let mut asc = cells.clone();
        asc.sort();
        let desc: Vec<u64> = asc.iter().rev().cloned().collect();
        for seq in [&cells, &asc, &desc] {
          for &cap in &[7usize, 64, 1000, 4096, 1_000_000] {
            for full in [true, false] {
              part.stratum("bulk-pushes", 1, 1);
              if let Some(v) = check_history(*d, full, cap, seq, &mut part) {
                part.viol(v);
              }
            }
          }
        }
      }
      Job::Sweep(lo, hi) => {
        let (d, tile): (u8, u64) = if sweep_max <= 340 { (6, 1024) } else { (8, 16384) };
        let t0 = 7 * tile; // a generic aligned tile
        assert!(t0 + 3 * tile + 1 < n_hash(d), "oracle: sweep tile out of range");
        for n in *lo..=*hi {
          let mut pushes: Vec<u64> = (t0..t0 + tile).collect();
          pushes.extend((0..n).map(|k| t0 + 3 * k + 1));
          pushes.push(t0 + tile + 5);
          pushes.push(t0 + 3 * tile + 1);
          for full in [true, false] {
            part.stratum("repush-size-sweep", 1, 1);
            if let Some(v) = check_history(d, full, tile as usize, &pushes, &mut part) {
              part.viol(v);
            }
          }
          // the same with the re-pushed cells first (the tile arrives in the second buffer)
          let mut p2: Vec<u64> = (0..n).map(|k| t0 + 3 * k + 1).collect();
          p2.push(t0 + tile + 5);
          p2.extend(t0..t0 + tile);
          part.stratum("repush-size-sweep", 1, 1);
          if let Some(v) = check_history(d, true, (n + 1) as usize, &p2, &mut part) {
            part.viol(v);
          }
        }
      }
      Job::SameNumber => {
        // two aligned blocks with the same block number j: [j 4^a, (j+1) 4^a) and [j 4^b, (j+1) 4^b),
        // a < b, pushed in separate buffers (they pack into cells (d-a, j) and (d-b, j))
        for b in 1..=3u32 {
          for a in 0..b {
            for j in 1..=6u64 {
              let d = (b as u8 + 1).max(3);
              let (la, lb) = (1u64 << (2 * a), 1u64 << (2 * b));
              if (j + 1) * lb > n_hash(d) {
                continue;
              }
              let blk_a: Vec<u64> = (j * la..(j + 1) * la).collect();
              let blk_b: Vec<u64> = (j * lb..(j + 1) * lb).collect();
              let orders: Vec<(Vec<u64>, usize)> = vec![
                ([vec![j * la], blk_b.clone(), blk_a.clone()].concat(), 1 + lb as usize),
                ([blk_a.clone(), vec![j * la], blk_b.clone()].concat(), la as usize),
                ([blk_b.clone(), blk_a.clone()].concat(), lb as usize),
                ([blk_a.clone(), blk_b.clone()].concat(), la as usize),
              ];
              for (pushes, cap) in orders {
                for full in [true, false] {
                  part.stratum("same-number-blocks", 1, 1);
                  if let Some(v) = check_history(d, full, cap.max(1), &pushes, &mut part) {
                    part.viol(v);
                  }
                }
              }
            }
          }
        }
      }
      Job::SiblingShapes(variant) => {
        // parent (t, root); siblings at depth t + 1, grandchildren at depth t + 2 = depth_max (variant 2: depth_max t + 3)
        let (t, root): (u8, u64) = match variant { 0 => (0, 5), 1 => (1, 4 * 7 + 2), _ => (2, 16 * 10 + 7) };
        let dm = t + 2 + if *variant == 2 { 1 } else { 0 };
        let content = |sib: u64, c: u32| -> Vec<Entry> {
          let s = (t + 1, sib, true);
          match c {
            0 => vec![],
            1 => vec![s],
            2 => vec![(t + 1, sib, false)],
            3 => vec![(t + 2, sib * 4, true)],
            4 => vec![(t + 2, sib * 4 + 3, true)],
            5 => vec![(t + 2, sib * 4 + 1, false)],
            _ => (0..4u64).map(|k| (t + 2, sib * 4 + k, true)).collect(),
          }
        };
        for code in 0..(7u32 * 7 * 7 * 7) {
          let mut e: Vec<Entry> = vec![];
          let mut c = code;
          for k in 0..4u64 {
            e.extend(content(root * 4 + k, c % 7));
            c /= 7;
          }
          if e.is_empty() {
            continue;
          }
          // a cell before and a cell after the group (other base cells)
          if code % 3 == 1 {
            e.insert(0, (t + 1, 1, true));
            e.push((0, 11, true));
          }
          let bm = Bm::new(dm, e);
          part.stratum("sibling-group-shapes", 1, 1);
          if let Some(v) = check_sequence("to_bmoc_packing", &bm, None, &mut part) {
            part.viol(v);
          }
        }
      }
      Job::Blocks(l1, l2) => {
        let block = |t: u8, root: u64, l: u8| -> Vec<Entry> { (0..(1u64 << (2 * l as u32))).map(|k| (t + l, (root << (2 * l as u32)) + k, true)).collect() };
        for t1 in 0..=3u8 {
          for t2 in 0..=3u8 {
            for l3 in [0u8, 2] {
              // distinct cells: block 1 under the cell 1 of depth t1 (in base cell 0), block 2 under
              // the last cell of depth t2 in base cell 7, block 3 (optional) under cell 5 of depth 1 in base cell 10
              let r1 = if t1 == 0 { 0 } else { 1 };
              let r2 = (8u64 << (2 * t2 as u32)) - 1;
              let mut e: Vec<Entry> = block(t1, r1, *l1);
              e.extend(block(t2, r2, *l2));
              if l3 > 0 {
                e.extend(block(1, 10 * 4 + 1, l3));
              }
              let dm = e.iter().map(|x| x.0).max().unwrap();
              e.sort_by_key(|x| x.1 << (2 * (dm - x.0) as u32));
              let bm = Bm::new(dm, e.clone());
              part.stratum("multi-block-sequences", 1, 1);
              if let Some(v) = check_sequence("to_bmoc_packing", &bm, None, &mut part) {
                part.viol(v);
              }
              // the same cells through the fixed-depth builder when they all have the same depth
              if e.iter().all(|x| x.0 == dm) {
                let pushes: Vec<u64> = e.iter().map(|x| x.1).collect();
                for cap in [pushes.len(), pushes.len() / 2 + 1, 27] {
                  part.stratum("multi-block-sequences", 1, 1);
                  if let Some(v) = check_history(dm, true, cap.max(1), &pushes, &mut part) {
                    part.viol(v);
                  }
                }
              }
            }
          }
        }
      }
      Job::Alias(d) => {
        let nh = n_hash(*d);
        for wbits in [8u32, 16, 32] {
          let mm = 1u64 << wbits;
          if 5 * mm + 64 >= nh {
            continue;
          }
          for h in [0u64, 16 * 37, (nh / 2 / 16) * 16, ((nh - 4 * mm - 64) / 16) * 16] {
            let sets: Vec<Vec<u64>> = vec![
              vec![h, h + 1, h + mm + 2, h + mm + 3],
              vec![h, h + mm + 1, h + 2 * mm + 2, h + 3 * mm + 3],
              vec![h + mm, h + mm + 1, h + 2, h + 3],
              (0..16u64).map(|k| if k < 4 { h + k } else { h + mm + k }).collect(),
              (0..16u64).map(|k| if k % 4 < 2 { h + k } else { h + mm + k }).collect(),
              vec![h, h + 1, h + 2, h + mm + 3, h + mm + 4],
            ];
            for set in sets {
              for rev in [false, true] {
                let mut pushes = set.clone();
                pushes.sort();
                if rev {
                  pushes.reverse();
                }
                for cap in [3usize, pushes.len(), 100] {
                  for full in [true, false] {
                    part.stratum("word-size-aliases", 1, 1);
                    if let Some(v) = check_history(*d, full, cap, &pushes, &mut part) {
                      part.viol(v);
                    }
                  }
                }
              }
            }
          }
        }
      }
      Job::LongScatter(k) => {
        let d = 14u8; // 3 * (2^20 + 1) cells fit in the depth-2 cell 121 (4^12 cells)
        let t0 = 121u64 << 24;
        for n in [(1u64 << *k) - 1, 1u64 << *k, (1u64 << *k) + 1] {
          for cap in [n as usize, (n / 2 + 1) as usize, 1000, (n + 7) as usize] {
            for full in [true, false] {
              part.stratum("long-scattered-histories", 1, 1);
              if let Some(v) = check_strided_runs(d, full, cap, &[(t0 + 1, n, 3), (t0 - 9, 1, 1)], &mut part) {
                part.viol(v);
              }
            }
          }
          // scattered cells, then the aligned tile of 4^5 cells that contains the first 342 of them
          part.stratum("long-scattered-histories", 1, 1);
          if let Some(v) = check_strided_runs(d, true, (n / 3 + 5) as usize, &[(t0 + 1, n, 3), (t0, 1024, 1), (t0 + 3 * n + 7, 1, 1)], &mut part) {
            part.viol(v);
          }
        }
      }
      Job::Pow4(k) => {
        let d = ((*k + 1) as u8).max(3).min(29);
        let len0 = 1u64 << (2 * *k);
        let nh = n_hash(d);
        // an aligned start in a generic tile, and an unaligned one
        let aligned = (37 % (nh / len0).max(1)) * len0;
        for (start, dl) in [(aligned, -3i64), (aligned, -2), (aligned, -1), (aligned, 0), (aligned, 1), (aligned + 1, -1), (aligned + 1, 0)] {
          let len = (len0 as i64 + dl) as u64;
          if len == 0 || start + len + 8 > nh {
            continue;
          }
          for full in [true, false] {
            part.stratum("power-of-four-runs", 1, 1);
            // the run, then a cell after a hole (lost if the cursor overshoots)
            if let Some(v) = check_runs(d, full, 20_000_000, &[(start, len), (start + len + 5, 1)], &mut part) {
              part.viol(v);
            }
          }
        }
      }
      Job::Stairs(lo, hi) => {
        for bm in &stairs[*lo..*hi] {
          part.stratum("merge-cascade-sequences", 1, 1);
          if let Some(v) = check_sequence("to_bmoc_packing", bm, None, &mut part) {
            part.viol(v);
          }
          for nd in 0..bm.depth_max.min(4) {
            for op in ["to_lower_depth_bmoc", "to_lower_depth_bmoc_packing"] {
              part.stratum("merge-cascade-sequences", 1, 1);
              if let Some(v) = check_sequence(op, bm, Some(nd), &mut part) {
                part.viol(v);
              }
            }
          }
        }
      }
      Job::Seq(lo, hi) => {
        for bm in &all_seq[*lo..*hi] {
          part.stratum("pack-sequences", 1, 1);
          if let Some(v) = check_sequence("to_bmoc_packing", bm, None, &mut part) {
            part.viol(v);
          }
          for nd in 0..bm.depth_max {
            for op in ["to_lower_depth_bmoc", "to_lower_depth_bmoc_packing"] {
              part.stratum("lower-depth-sequences", 1, 1);
              if let Some(v) = check_sequence(op, bm, Some(nd), &mut part) {
                part.viol(v);
              }
            }
          }
        }
      }
    }
    part
  });
  finish(
    ctx,
    total,
    json!({"push_histories": format!("all sequences of length <= {} over {} cells of depth {} x capacities {:?} x both flags", max_len, na, hist_depth, caps),
      "runs": format!("consecutive runs of length 1..{} from 13 aligned/unaligned starts at depths {:?}, 6 push orders (asc, desc, interleaved, duplicated, duplicated+repeat, gap), 12 capacities, both flags", if quick { 70 } else { 300 }, run_depths),
      "bulk": "per depth (6, 9 quick; + 12, 18, 29 thorough) a deterministic multiset of ~9000 pushes (60 clusters, a whole aligned coarse cell of 4096 cells, an unaligned run of 1500, 400 repeats) in 3 orders x 5 capacities x 2 flags",
      "repush_size_sweep": format!("a whole tile then n of its cells again + 2 cells after it, every n in 1..={}, capacity = tile size (drain = or of the packed tile with n covered entries), both flags and the reverse arrival order", sweep_max),
      "merge_cascades": format!("{} staircase sequences: every cascade length 1..=29 (3k+1 entries), 4 child paths, all full / one partial stair / partial last cell; pack and lower depths 0..3", stairs.len()),
      "sibling_group_shapes": "the four children of a cell, each absent / full / partial / one full grandchild (first, last) / one partial grandchild / four full children: all 7^4 combinations under 3 parent cells, packed",
      "multi_block_sequences": "two / three complete blocks (t, l): the 4^l cells of depth t + l filling a cell of depth t, every t1, t2 in 0..=3 and l1, l2 in 1..=3, packed as sequences and pushed through the fixed-depth builder (3 capacities) when of one depth",
      "word_size_aliases": "quads and 16-blocks whose members are split between h + k and h + 2^w + k (w = 8, 16, 32), 6 set shapes, 4 aligned starts, sorted and reversed pushes, 3 capacities, both flags, depths 5..=29",
      "long_scattered_histories": "2^k - 1, 2^k, 2^k + 1 cells of stride 3 at depth 14 (k = 10..=16 quick / 20 thorough), 4 buffer capacities, both flags; then an aligned tile pushed over their beginning",
      "power_of_four_runs": "runs of 4^k - 3 .. 4^k + 1 consecutive cells (k = 1..=11 quick / 12 thorough) from an aligned and an unaligned start, followed by a cell after a hole, both flags, one buffer",
      "small": "all subsets of the depth-0 cells, of the depth-1... (12 cells) and of 11 cells of depth 29, both orders; all rotations of the 48 depth-1 cells",
      "sequences": format!("{} valid entry sequences (universe depth 2 chain-first with partial flags and unpacked shapes{}) x pack and every lower depth", all_seq.len(), if quick { "" } else { ", depth 3 chain-last" })}),
    "every push history / run / subset / entry sequence listed in bounds",
    vec!["set model of pushed cells and three-valued range model R4".into(), "cells outside the push alphabet and longer histories are outside the bound".into()],
    Map::new(),
  )
}

pub fn replay(case: &Value) -> Option<Viol> {
  let mut part = Part::new();
  if case["kind"] == "runs" {
    let runs: Vec<(u64, u64, u64)> = case["runs"].as_array().unwrap().iter().map(|r| (u64_from_json(&r[0]), u64_from_json(&r[1]), r.get(2).map(u64_from_json).unwrap_or(1))).collect();
    return check_strided_runs(case["depth"].as_u64().unwrap() as u8, case["is_full"].as_bool().unwrap(), case["capacity"].as_u64().unwrap() as usize, &runs, &mut part);
  }
  if case["kind"] == "history" {
    let pushes: Vec<u64> = case["pushes"].as_array().unwrap().iter().map(u64_from_json).collect();
    check_history(case["depth"].as_u64().unwrap() as u8, case["is_full"].as_bool().unwrap(), case["capacity"].as_u64().unwrap() as usize, &pushes, &mut part)
  } else {
    let bm = Bm::from_json(&case["input"]);
    check_sequence(case["op"].as_str().unwrap(), &bm, case["new_depth"].as_u64().map(|x| x as u8), &mut part)
  }
}
