//! C13: elliptical cone coverage -- shape S.

use crate::bm::Bm;
use crate::cone::{bitmap_of, centres, kf1_matches, max_c2v, thresholds, witness_misses, witness_tab, KF1};
use crate::refm::*;
use crate::report::*;
use cdshealpix::nested;
use serde_json::{json, Map, Value};

#[derive(Clone, Copy, Debug)]
pub struct EllQ {
  pub depth: u8,
  pub delta: u8, // 0 = elliptical_cone_coverage, > 0 = custom
  pub lon: f64,
  pub lat: f64,
  pub a: f64,
  pub b: f64,
  pub pa: f64,
}

impl EllQ {
  pub fn api(&self) -> &'static str {
    if self.delta == 0 { "nested::elliptical_cone_coverage" } else { "nested::elliptical_cone_coverage_custom" }
  }
  pub fn to_json(&self) -> Value {
    json!({"api": self.api(), "depth": self.depth, "delta_depth": self.delta, "lon": f64_json(self.lon), "lat": f64_json(self.lat),
      "a": f64_json(self.a), "b": f64_json(self.b), "pa": f64_json(self.pa)})
  }
  pub fn from_json(v: &Value) -> EllQ {
    EllQ {
      depth: v["depth"].as_u64().unwrap() as u8,
      delta: v["delta_depth"].as_u64().unwrap() as u8,
      lon: f64_from_json(&v["lon"]),
      lat: f64_from_json(&v["lat"]),
      a: f64_from_json(&v["a"]),
      b: f64_from_json(&v["b"]),
      pa: f64_from_json(&v["pa"]),
    }
  }
  pub fn run(&self) -> Result<Bm, String> {
    let q = *self;
    journal(self.api(), || self.to_json());
    guarded(move || {
      if q.delta == 0 {
        Bm::from_impl(&nested::elliptical_cone_coverage(q.depth, q.lon, q.lat, q.a, q.b, q.pa))
      } else {
        Bm::from_impl(&nested::elliptical_cone_coverage_custom(q.depth, q.delta, q.lon, q.lat, q.a, q.b, q.pa))
      }
    })
  }
}

pub enum V {
  Ok,
  Known(Value),
  Bad(Viol),
}

/// The cells of depth `dm` at the four corners of the cell (de, h), de < dm: a coarse entry stands
/// for all its descendants, and the tightness clause speaks of every cell of the result.
fn corner_descendants(de: u8, h: u64, dm: u8) -> [u64; 4] {
  let sh = 2 * (dm - de) as u32;
  let ones = (1u64 << sh) - 1;
  let base = h << sh;
  [base, base | (ones & 0x5555555555555555), base | (ones & 0xAAAAAAAAAAAAAAAA), base | ones]
}

/// Tightness of one entry: its own centre at its own depth, and -- for an entry coarser than the
/// requested depth -- the centres of its four corner cells of the requested depth.
fn entry_not_tight(q: &EllQ, c: &[f64; 3], de: u8, h: u64, dm: u8) -> Option<(String, String)> {
  let dist_of = |d: u8, hh: u64| -> f64 {
    let (xc, yc) = center_plane(d, hh);
    let (l, b) = ref_unproj(xc, yc);
    ang_dist_vec(&unit_vec(l, b), c)
  };
  let limit = q.a + 2.0 * max_c2v(de) + 1e-9;
  let a = dist_of(de, h);
  if a > limit {
    return Some((format!("every cell centre within a + 2 * {:e} = {:e} of the ellipse centre", max_c2v(de), limit), format!("cell {}/{} has its centre at {:e}", de, h, a)));
  }
  if de < dm {
    let limit = q.a + 2.0 * max_c2v(dm) + 1e-9;
    for hh in corner_descendants(de, h, dm) {
      let a = dist_of(dm, hh);
      if a > limit {
        return Some((format!("every cell centre within a + 2 * {:e} = {:e} of the ellipse centre", max_c2v(dm), limit), format!("cell {}/{}, a descendant of the entry {}/{}, has its centre at {:e}", dm, hh, de, h, a)));
      }
    }
  }
  None
}

pub fn check(q: &EllQ, listed_kf1: bool, part: &mut Part) -> V {
  let bad = |kind: &str, expected: String, actual: String| V::Bad(Viol { api: q.api().into(), kind: kind.into(), case: q.to_json(), expected, actual });
  if q.a >= HALF_PI {
    return match q.run() {
      Ok(o) => bad("large-semi-major-axis-accepted", "panic (a >= pi/2)".into(), o.describe()),
      Err(_) => V::Ok,
    };
  }
  let out = match q.run() {
    Ok(o) => o,
    Err(m) => return bad("panic", "a coverage".into(), format!("panic: {}", m)),
  };
  part.outcome(hash64(&[out.entries.len() as u64, out.entries.iter().fold(q.depth as u64, |a, e| a.wrapping_mul(1_000_003) ^ (e.1 << 6) ^ ((e.0 as u64) << 1) ^ e.2 as u64)]));
  let map = match out.to_map() {
    Ok(m) => m,
    Err(e) => return bad("malformed-result", "a valid BMOC".into(), format!("{} ({})", out.describe(), e)),
  };
  if out.depth_max != q.depth {
    return bad("wrong-depth-max", format!("depth_max {}", q.depth), out.describe());
  }
  part.validated += 1;
  let cov = bitmap_of(&map, q.depth);
  // the cell of the centre is present (any cell containing the centre, for a centre on a border)
  let (x, y) = ref_proj(q.lon, q.lat);
  let (d, lon, lat) = (q.depth, q.lon, q.lat);
  let hc = match guarded(move || nested::hash(d, lon, lat)) {
    Ok(h) if h < n_hash(d) => h,
    _ => return V::Ok, // C01's business
  };
  if !cov[hc as usize] {
    // on a border? accept any covered cell containing the centre
    let mut ok = false;
    if outside(d, hc, x, y) >= -1e-12 {
      for (_, nb) in ref_neighbours(d, hc) {
        if cov[nb as usize] && outside(d, nb, x, y) <= TOL_PLANE {
          ok = true;
        }
      }
    }
    if !ok {
      return bad("centre-cell-missing", format!("cell {}/{} of the ellipse centre in the coverage", d, hc), out.describe());
    }
  }
  // tightness
  let c = unit_vec(q.lon, q.lat);
  for &(de, h, _) in &out.entries {
    if let Some((e, a)) = entry_not_tight(q, &c, de, h, out.depth_max) {
      return bad("not-tight", e, a);
    }
  }
  // circular case: the cone witness oracle
  if q.b == q.a {
    let misses = witness_misses(q.depth, q.lon, q.lat, q.a, &cov, 8);
    part.validated += 1;
    let mut known: Option<Value> = None;
    for (h, why) in misses {
      let mut case = q.to_json();
      case["missed_cell"] = json!(h.to_string());
      if listed_kf1 && kf1_matches(q.lon, q.lat, q.a, q.depth, h) {
        known = Some(case);
        continue;
      }
      return V::Bad(Viol { api: q.api().into(), kind: "miss".into(), case, expected: format!("cell {}/{} in the coverage of the circular cone: {}", q.depth, h, why), actual: out.describe() });
    }
    if let Some(k) = known {
      return V::Known(k);
    }
  }
  V::Ok
}

/// Deep tier (depth > 5): same clauses, the coverage is searched through its ranges and the
/// circular case uses points of the cone hashed at the query depth (as the deep tier of C05).
pub fn check_deep(q: &EllQ, listed_kf1: bool, part: &mut Part) -> V {
  check_deep_n(q, listed_kf1, 24, part)
}

/// `nbear` bearings; witnesses at the centre, 0.3 a, 0.7 a, half a cell inside the rim and on the rim.
pub fn check_deep_n(q: &EllQ, listed_kf1: bool, nbear: usize, part: &mut Part) -> V {
  let bad = |kind: &str, expected: String, actual: String| V::Bad(Viol { api: q.api().into(), kind: kind.into(), case: q.to_json(), expected, actual });
  let out = match q.run() {
    Ok(o) => o,
    Err(m) => return bad("panic", "a coverage".into(), format!("panic: {}", m)),
  };
  part.outcome(hash64(&[out.entries.len() as u64, q.depth as u64, out.entries.first().map(|e| e.1).unwrap_or(0)]));
  let map = match out.to_map() {
    Ok(m) => m,
    Err(e) => return bad("malformed-result", "a valid BMOC".into(), format!("{} ({})", out.describe(), e)),
  };
  if out.depth_max != q.depth {
    return bad("wrong-depth-max", format!("depth_max {}", q.depth), out.describe());
  }
  part.validated += 1;
  let covered = |h: u64| -> bool {
    let rs = &map.ranges;
    let idx = rs.partition_point(|r| r.1 <= h);
    idx < rs.len() && rs[idx].0 <= h
  };
  let (d, lon, lat) = (q.depth, q.lon, q.lat);
  let (x, y) = ref_proj(lon, lat);
  if let Ok(hc) = guarded(move || nested::hash(d, lon, lat)) {
    if hc < n_hash(d) && !covered(hc) {
      let mut ok = false;
      if outside(d, hc, x, y) >= -1e-12 {
        for (_, nb) in ref_neighbours(d, hc) {
          if covered(nb) && outside(d, nb, x, y) <= TOL_PLANE {
            ok = true;
          }
        }
      }
      if !ok {
        return bad("centre-cell-missing", format!("cell {}/{} of the ellipse centre in the coverage", d, hc), out.describe());
      }
    }
  }
  let c = unit_vec(q.lon, q.lat);
  // (every coarse entry; of the entries of the requested depth, the first 4000 and the last 4000)
  let ne = out.entries.len();
  for (k, &(de, h, _)) in out.entries.iter().enumerate() {
    if de == out.depth_max && k >= 4000 && k + 4000 < ne {
      continue;
    }
    if let Some((e, a)) = entry_not_tight(q, &c, de, h, out.depth_max) {
      return bad("not-tight", e, a);
    }
  }
  if q.b == q.a {
    let margin = if q.a >= 1e-6 { 1e-9 } else { 1e-3 * q.a };
    let mut known: Option<Value> = None;
    let cell = PI / 3.0f64.sqrt() / (1u64 << d) as f64;
    for k in 0..nbear {
      let bearing = k as f64 * (TWO_PI / nbear as f64) + 0.05;
      let f_rim = 1.0 - (2.0 * margin / q.a).max(2e-6); // just inside the margin of "robustly inside"
      for f in [0.0, 0.3, 0.7, 0.9, (1.0 - 0.5 * cell / q.a).max(0.5), f_rim, 1.0 - 1e-6] {
        let (l, b) = destination(q.lon, q.lat, bearing, q.a * f);
        let h = match guarded(move || nested::hash(d, l, b)) {
          Ok(h) if h < n_hash(d) => h,
          _ => continue,
        };
        part.validated += 1;
        if !covered(h) {
          let a = ang_dist(q.lon, q.lat, l, b);
          let (px, py) = ref_proj(l, b);
          if a <= q.a - margin && outside(d, h, px, py) <= TOL_PLANE {
            let mut case = q.to_json();
            case["missed_cell"] = json!(h.to_string());
            if listed_kf1 && kf1_matches(q.lon, q.lat, q.a, d, h) {
              known = Some(case);
              continue;
            }
            return V::Bad(Viol { api: q.api().into(), kind: "miss".into(), case, expected: format!("cell {}/{} in the coverage of the circular cone: it contains ({:e}, {:e}) at {:e} rad from the centre (a = {:e})", d, h, l, b, a, q.a), actual: out.describe() });
          }
        }
      }
    }
    if let Some(k) = known {
      return V::Known(k);
    }
  }
  V::Ok
}

pub fn run(ctx: &Ctx) -> i32 {
  let quick = ctx.quick();
  let listed_kf1 = ctx.findings.listed("C13", KF1);
  let dmax: u8 = if quick { 4 } else { 5 };
  let deltas: Vec<u8> = if quick { vec![0, 1] } else { vec![0, 1, 2] };
  let cs = centres(quick);
  let t = thresholds();
  for d in 0..=dmax {
    let _ = witness_tab(d);
  }
  let _ = max_c2v(0);
  let mut axes: Vec<f64> = vec![0.001, 0.02, 0.1, 0.3, 0.7, 1.2, 1.5, 1.57];
  for k in 0..=(dmax as usize + 2) {
    for f in [0.7, 0.97, 0.999, 1.0, 1.05] {
      let a = t[k] * f;
      if a < HALF_PI {
        axes.push(a);
      }
    }
  }
  let ratios = [1.0, 0.5, 0.1];
  let pas = [0.0, 0.7, HALF_PI, 2.5];
  let mut jobs: Vec<(u8, usize)> = vec![];
  for d in 0..=dmax {
    for ci in 0..cs.len() {
      jobs.push((d, ci));
    }
  }
  let mut total = par_jobs(jobs.len(), |j| {
    let (d, ci) = jobs[j];
    let (lon, lat) = cs[ci];
    let mut part = Part::new();
    if ctx.over_budget() {
      part.caps.push(format!("wall budget {}s reached in C13 enumeration", ctx.budget_s));
      return part;
    }
    for &a in &axes {
      for &ratio in &ratios {
        for &pa in &pas {
          if ratio == 1.0 && pa != 0.0 && pa != 0.7 {
            continue; // the position angle is irrelevant for a circle: two values are enough
          }
          for &delta in &deltas {
            if d + delta > 7 {
              continue;
            }
            let q = EllQ { depth: d, delta, lon, lat, a, b: a * ratio, pa };
            part.stratum(if ratio == 1.0 { "circular" } else { "eccentric" }, 1, 1);
            match check(&q, listed_kf1, &mut part) {
              V::Ok => {}
              V::Known(ex) => part.known(KF1, ex),
              V::Bad(v) => part.viol(v),
            }
            if j % 89 == (ctx.seed.rem_euclid(89)) as usize && a == 0.3 && ratio == 0.5 && pa == 0.7 && delta == 0 {
              part.sample(q.to_json());
            }
          }
        }
      }
    }
    part
  });
  // deep tier: ellipses a fraction of a cell to a few tens of cells across, mid and large depths
  let deep_depths: Vec<u8> = if quick { vec![9, 14, 22, 27, 29] } else { vec![7, 9, 11, 14, 17, 20, 22, 25, 29] };
  let djobs: Vec<(u8, usize)> = deep_depths.iter().flat_map(|&d| (0..cs.len()).map(move |ci| (d, ci))).collect();
  let deep_part = par_jobs(djobs.len(), |j| {
    let (d, ci) = djobs[j];
    let (lon, lat) = cs[ci];
    let mut part = Part::new();
    if ctx.over_budget() {
      part.caps.push(format!("wall budget {}s reached in C13 deep enumeration", ctx.budget_s));
      return part;
    }
    let cell = PI / 3.0f64.sqrt() / (1u64 << d) as f64;
    for &k in &[0.3, 2.0, 9.0, 31.0] {
      let a = k * cell;
      for &ratio in &[1.0, 0.3] {
        for &pa in &[0.0, 2.1] {
          if ratio == 1.0 && pa != 0.0 {
            continue;
          }
          for &delta in &[0u8, 1] {
            if d + delta > 29 {
              continue;
            }
            let q = EllQ { depth: d, delta, lon, lat, a, b: a * ratio, pa };
            part.stratum(if ratio == 1.0 { "deep-circular" } else { "deep-eccentric" }, 1, 1);
            match check_deep(&q, listed_kf1, &mut part) {
              V::Ok => {}
              V::Known(ex) => part.known(KF1, ex),
              V::Bad(v) => part.viol(v),
            }
          }
        }
      }
    }
    // thin rotated ellipses (b / a = 0.05, 0.12; position angles around 45 and 135 degrees), tens
    // of cells long: their bounding box in the tangent plane is far larger than the ellipse, and a
    // coarse cell 4..6 levels above the requested depth is about as large as the ellipse is wide
    // (a containment or rejection test written on the axis-aligned extents goes wrong exactly there)
    for &k in &[40.0, 75.0, 130.0] {
      let a = k * cell;
      if a >= 0.6 {
        continue;
      }
      for &ratio in &[0.05, 0.12] {
        for &pa in &[0.6, 0.79, 0.95, 2.36] {
          let q = EllQ { depth: d, delta: 0, lon, lat, a, b: a * ratio, pa };
          part.stratum("deep-thin-rotated", 1, 1);
          match check_deep(&q, listed_kf1, &mut part) {
            V::Ok => {}
            V::Known(ex) => part.known(KF1, ex),
            V::Bad(v) => part.viol(v),
          }
        }
      }
    }
    part
  });
  total.merge(deep_part);
  // deep-large tier: ellipses thousands of cells across (13+ recursion levels below the start
  // depth, outputs of 10^5 cells)
  let large: Vec<(u8, f64)> = if quick { vec![(16, 0.25), (18, 0.06)] } else { vec![(13, 1.0), (14, 0.5), (16, 0.25), (17, 0.12), (18, 0.06), (20, 0.016), (22, 0.004)] };
  let lcs: Vec<(f64, f64)> = if quick { vec![(0.1234, 0.2345), (3.3, 1.05)] } else { vec![(0.1234, 0.2345), (3.3, 1.05), (PI / 2.0, -0.729), (5.5, -1.4), (0.0, HALF_PI)] };
  let ljobs: Vec<(u8, f64, usize, f64, u8)> = large.iter().flat_map(|&(d, a)| (0..lcs.len()).flat_map(move |ci| [(1.0, 0u8), (0.6, 0), (1.0, 2)].into_iter().map(move |(ratio, delta)| (d, a, ci, ratio, delta)))).collect();
  let large_part = par_jobs(ljobs.len(), |j| {
    let (d, a, ci, ratio, delta) = ljobs[j];
    let (lon, lat) = lcs[ci];
    let mut part = Part::new();
    if ctx.over_budget() {
      part.caps.push(format!("wall budget {}s reached in C13 deep-large enumeration", ctx.budget_s));
      return part;
    }
    let q = EllQ { depth: d, delta, lon, lat, a, b: a * ratio, pa: 0.7 };
    part.stratum(if ratio == 1.0 { "deep-large-circular" } else { "deep-large-eccentric" }, 1, 1);
    match check_deep_n(&q, listed_kf1, 96, &mut part) {
      V::Ok => {}
      V::Known(ex) => part.known(KF1, ex),
      V::Bad(v) => part.viol(v),
    }
    part
  });
  total.merge(large_part);
  // rejection of a >= pi/2
  for a in [HALF_PI, 1.6, 2.0, 3.0] {
    for delta in [0u8, 1] {
      let q = EllQ { depth: 2, delta, lon: 1.0, lat: 0.3, a, b: 0.5, pa: 0.3 };
      total.stratum("rejection", 1, 1);
      if let V::Bad(v) = check(&q, listed_kf1, &mut Part::new()) {
        total.viol(v);
      }
    }
  }
  finish(
    ctx,
    total,
    json!({"depths": format!("0..={}", dmax), "delta_depths": deltas, "centres": cs.len(), "semi_major_axes": axes.len(), "b_over_a": ratios, "position_angles": pas}),
    "every (depth, delta_depth, centre, a, b/a, position angle) combination of the alphabets; for circular ellipses every cell of the depth is a witness candidate",
    vec!["R1/R2, witness oracle of C05 for b = a, reference cell sizes".into(), "no no-miss claim is checked for eccentric ellipses (the property makes none)".into()],
    Map::new(),
  )
}

pub fn replay(case: &Value, findings: &Findings) -> Option<Viol> {
  let q = EllQ::from_json(case);
  let r = if q.depth <= 5 { check(&q, findings.listed("C13", KF1), &mut Part::new()) } else { check_deep(&q, findings.listed("C13", KF1), &mut Part::new()) };
  match r {
    V::Bad(v) => Some(v),
    _ => None,
  }
}
