//! C09: every BMOC handed to the user is well formed and its views agree -- shapes E + S.
//!
//! (a) outputs of the coverage queries (cone, elliptical cone, polygon) over small alphabets;
//! (b) explicit-state search: operator sequences (not/and/or/xor) starting from those outputs and
//!     from small universes of valid BMOCs, every result checked;
//! (c) outputs of both builders.

use crate::bm::*;
use crate::c07::{aligned_descendant_sweep, consecutive_number_sweep, same_number_sweep, cascade_sweep, search_opt, size_sweep, universe, Chain, Mode, UniverseSpec};
use crate::c12::make_polygon;
use crate::refm::{HALF_PI, PI, TWO_PI};
use crate::report::*;
use cdshealpix::nested;
use cdshealpix::nested::bmoc::{BMOCBuilderFixedDepth, BMOCBuilderUnsafe, BMOC};
use serde_json::{json, Map, Value};
use std::collections::HashSet;

const EXPAND: u64 = 200_000;

fn views_viol(api: &str, case: Value, b: &BMOC) -> Option<Viol> {
  match check_views(b, EXPAND) {
    Ok(()) => None,
    Err(e) => Some(Viol { api: api.into(), kind: "views-disagree".into(), case, expected: "a well-formed BMOC whose iterators, flat array, deep size and ranges describe the same cells".into(), actual: format!("{} -- {}", Bm::from_impl(b).describe(), e) }),
  }
}

#[derive(Clone, Debug)]
pub enum Cov {
  Cone { depth: u8, delta: u8, lon: f64, lat: f64, r: f64 },
  Ell { depth: u8, delta: u8, lon: f64, lat: f64, a: f64, b: f64, pa: f64 },
  Poly { depth: u8, exact: bool, vertices: Vec<(f64, f64)> },
}

impl Cov {
  fn to_json(&self) -> Value {
    match self {
      Cov::Cone { depth, delta, lon, lat, r } => json!({"kind": "cone", "depth": depth, "delta_depth": delta, "lon": f64_json(*lon), "lat": f64_json(*lat), "radius": f64_json(*r)}),
      Cov::Ell { depth, delta, lon, lat, a, b, pa } => json!({"kind": "ellipse", "depth": depth, "delta_depth": delta, "lon": f64_json(*lon), "lat": f64_json(*lat), "a": f64_json(*a), "b": f64_json(*b), "pa": f64_json(*pa)}),
      Cov::Poly { depth, exact, vertices } => json!({"kind": "polygon", "depth": depth, "exact": exact, "vertices": vertices.iter().map(|v| json!([f64_json(v.0), f64_json(v.1)])).collect::<Vec<_>>()}),
    }
  }
  fn from_json(v: &Value) -> Cov {
    let depth = v["depth"].as_u64().unwrap() as u8;
    match v["kind"].as_str().unwrap() {
      "cone" => Cov::Cone { depth, delta: v["delta_depth"].as_u64().unwrap() as u8, lon: f64_from_json(&v["lon"]), lat: f64_from_json(&v["lat"]), r: f64_from_json(&v["radius"]) },
      "ellipse" => Cov::Ell { depth, delta: v["delta_depth"].as_u64().unwrap() as u8, lon: f64_from_json(&v["lon"]), lat: f64_from_json(&v["lat"]), a: f64_from_json(&v["a"]), b: f64_from_json(&v["b"]), pa: f64_from_json(&v["pa"]) },
      _ => Cov::Poly { depth, exact: v["exact"].as_bool().unwrap(), vertices: v["vertices"].as_array().unwrap().iter().map(|p| (f64_from_json(&p[0]), f64_from_json(&p[1]))).collect() },
    }
  }
  fn api(&self) -> &'static str {
    match self {
      Cov::Cone { delta, .. } => if *delta == 0 { "nested::cone_coverage_approx" } else { "nested::cone_coverage_approx_custom" },
      Cov::Ell { delta, .. } => if *delta == 0 { "nested::elliptical_cone_coverage" } else { "nested::elliptical_cone_coverage_custom" },
      Cov::Poly { .. } => "nested::polygon_coverage",
    }
  }
  fn run(&self) -> Result<BMOC, String> {
    let q = self.clone();
    guarded(move || match q {
      Cov::Cone { depth, delta, lon, lat, r } => if delta == 0 { nested::cone_coverage_approx(depth, lon, lat, r) } else { nested::cone_coverage_approx_custom(depth, delta, lon, lat, r) },
      Cov::Ell { depth, delta, lon, lat, a, b, pa } => if delta == 0 { nested::elliptical_cone_coverage(depth, lon, lat, a, b, pa) } else { nested::elliptical_cone_coverage_custom(depth, delta, lon, lat, a, b, pa) },
      Cov::Poly { depth, exact, vertices } => nested::polygon_coverage(depth, &vertices, exact),
    })
  }
}

/// Check one coverage output; returns its value (for the operator search).
pub fn check_cov(q: &Cov, part: &mut Part) -> (Option<Bm>, Option<Viol>) {
  journal(q.api(), || q.to_json());
  let b = match q.run() {
    Ok(b) => b,
    Err(_) => return (None, None), // a panic is the business of C05 / C12 / C13
  };
  part.validated += 1;
  let bm = Bm::from_impl(&b);
  part.outcome(hash64(&[bm.entries.len() as u64, bm.entries.iter().fold(bm.depth_max as u64, |a, e| a.wrapping_mul(1_000_003) ^ (e.1 << 6) ^ ((e.0 as u64) << 1) ^ e.2 as u64)]));
  if let Some(v) = views_viol(q.api(), q.to_json(), &b) {
    return (None, Some(v));
  }
  // the flat variant of the cone is the flattened view of the same coverage
  if let Cov::Cone { depth, delta: 0, lon, lat, r } = q {
    let (d, l, t, rr) = (*depth, *lon, *lat, *r);
    if let Ok(flat) = guarded(move || nested::cone_coverage_approx_flat(d, l, t, rr)) {
      let strictly = flat.windows(2).all(|w| w[0] < w[1]);
      if !strictly || flat.as_ref() != b.to_flat_array().as_ref() {
        return (Some(bm), Some(Viol { api: "nested::cone_coverage_approx_flat".into(), kind: "views-disagree".into(), case: q.to_json(), expected: "the strictly increasing flattened cells of cone_coverage_approx".into(), actual: format!("{:?}", &flat[..flat.len().min(20)]) }));
      }
    }
  }
  (Some(bm), None)
}

pub fn cov_queries(quick: bool) -> Vec<Cov> {
  let depths: Vec<u8> = if quick { vec![0, 1, 2, 3] } else { vec![0, 1, 2, 3, 4, 5] };
  let centres: Vec<(f64, f64)> = vec![(0.1234, 0.2345), (1.0, 1.2), (2.7, -0.3), (0.0, 0.0), (PI / 4.0, 0.0), (PI / 2.0, 0.729727656226966), (0.0, -1.1596584644725487), (1.234, HALF_PI), (4.0, -HALF_PI), (TWO_PI, 0.3), (5.5, -1.4)];
  let radii = [1e-6, 0.01, 0.05, 0.2, 0.5, 1.0, 1.5, 2.3, 3.1, PI];
  let mut v = vec![];
  for &d in &depths {
    for &(lon, lat) in &centres {
      for &r in &radii {
        for delta in [0u8, 1, 2] {
          if d + delta <= 6 {
            v.push(Cov::Cone { depth: d, delta, lon, lat, r });
          }
        }
      }
      for &a in &[0.02, 0.3, 0.7, 1.5] {
        for &ratio in &[1.0, 0.5, 0.1] {
          for delta in [0u8, 1] {
            v.push(Cov::Ell { depth: d, delta, lon, lat, a, b: a * ratio, pa: 0.7 });
          }
        }
      }
      if lat.abs() < 1.0 {
        for &r in &[0.02, 0.1, 0.28, 0.6] {
          for &n in &[3usize, 5, 8] {
            for &exact in &[false, true] {
              v.push(Cov::Poly { depth: d, exact, vertices: make_polygon(lon, lat, n, r, 1.0, 0.37, false) });
              if n == 8 {
                v.push(Cov::Poly { depth: d, exact, vertices: make_polygon(lon, lat, n, r, 0.5, 0.0, true) });
              }
            }
          }
        }
      }
    }
  }
  // larger depths: coverages with hundreds to tens of thousands of cells (all views expanded
  // below 200000 deepest cells)
  let deep: &[u8] = if quick { &[7, 10] } else { &[7, 9, 10, 12, 14] };
  for &d in deep {
    let cell = PI / 3.0f64.sqrt() / (1u64 << d) as f64;
    for &(lon, lat) in &[(0.1234, 0.2345), (1.0, 1.2), (0.0, -1.1596584644725487), (5.5, -0.4)] {
      for &k in &[0.4, 5.0, 40.0] {
        for delta in [0u8, 2] {
          v.push(Cov::Cone { depth: d, delta, lon, lat, r: k * cell });
        }
        v.push(Cov::Ell { depth: d, delta: 0, lon, lat, a: k * cell, b: 0.3 * k * cell, pa: 1.1 });
        if lat.abs() < 1.0 {
          v.push(Cov::Poly { depth: d, exact: true, vertices: make_polygon(lon, lat, 5, k * cell, 1.0, 0.2, false) });
        }
      }
    }
  }
  v
}

fn builder_case(kind: &str, depth: u8, full: bool, cap: usize, pushes: &[u64]) -> Value {
  json!({"kind": kind, "depth": depth, "is_full": full, "capacity": cap, "pushes": pushes.iter().map(|h| h.to_string()).collect::<Vec<_>>()})
}

pub fn check_fixed_builder(depth: u8, full: bool, cap: usize, pushes: &[u64], part: &mut Part) -> Option<Viol> {
  journal("BMOCBuilderFixedDepth", || builder_case("fixed-builder", depth, full, cap, pushes));
  let pv = pushes.to_vec();
  let r = guarded(move || {
    let mut b = BMOCBuilderFixedDepth::with_capacity(depth, full, cap);
    for &h in &pv {
      b.push(h);
    }
    b.to_bmoc()
  });
  part.validated += 1;
  match r {
    Ok(Some(b)) => views_viol("BMOCBuilderFixedDepth", builder_case("fixed-builder", depth, full, cap, pushes), &b),
    _ => None, // None / panic: C15's business
  }
}

pub fn check_unsafe_builder(bm: &Bm, op: &str, new_depth: Option<u8>, part: &mut Part) -> Option<Viol> {
  journal("BMOCBuilderUnsafe", || json!({"kind": "unsafe-builder", "op": op, "input": bm.to_json(), "new_depth": new_depth}));
  let entries = bm.entries.clone();
  let dm = bm.depth_max;
  let opn = op.to_string();
  let r = guarded(move || {
    let mut b = BMOCBuilderUnsafe::new(dm, entries.len().max(1));
    for &(d, h, f) in &entries {
      b.push(d, h, f);
    }
    match opn.as_str() {
      "to_bmoc" => b.to_bmoc(),
      "to_bmoc_from_unordered" => b.to_bmoc_from_unordered(),
      "to_bmoc_packing" => b.to_bmoc_packing(),
      "to_lower_depth_bmoc" => b.to_lower_depth_bmoc(new_depth.unwrap()),
      _ => b.to_lower_depth_bmoc_packing(new_depth.unwrap()),
    }
  });
  part.validated += 1;
  match r {
    Ok(b) => views_viol(&format!("BMOCBuilderUnsafe::{}", op), json!({"kind": "unsafe-builder", "op": op, "input": bm.to_json(), "new_depth": new_depth}), &b),
    Err(_) => None,
  }
}

pub fn run(ctx: &Ctx) -> i32 {
  let quick = ctx.quick();
  let mut total = Part::new();
  // (a) coverage outputs
  let qs = cov_queries(quick);
  let chunk = 32;
  let njobs = (qs.len() + chunk - 1) / chunk;
  let mut part = par_jobs(njobs, |j| {
    let mut p = Part::new();
    for q in &qs[j * chunk..((j + 1) * chunk).min(qs.len())] {
      p.stratum("coverage-outputs", 1, 1);
      let (bm, v) = check_cov(q, &mut p);
      if let Some(v) = v {
        p.viol(v);
      }
      if let Some(bm) = bm {
        if bm.depth_max <= 3 {
          p.payload.push(bm.to_json());
        }
      }
    }
    p
  });
  let mut seen: HashSet<Bm> = HashSet::new();
  let mut cov_states: Vec<Bm> = vec![];
  for v in std::mem::take(&mut part.payload) {
    let bm = Bm::from_json(&v);
    if bm.to_map().is_ok() && seen.insert(bm.clone()) {
      cov_states.push(bm);
    }
  }
  total.merge(part);
  // (b) operator sequences: from coverage outputs (a deterministic thinning keeps the search bounded)
  let keep = if quick { 60 } else { 200 };
  let stride = (cov_states.len() / keep).max(1);
  let init: Vec<Bm> = cov_states.iter().step_by(stride).cloned().collect();
  let mut searches = vec![];
  searches.push(search_opt(ctx, Mode::Views, "coverage-outputs-sequences", init, 2, true, &mut total));
  searches.push(search_opt(ctx, Mode::Views, "universe-D1-closure", universe(&UniverseSpec { name: "D1", dmax: 1, chain: Chain::All(1), partial: true, unpacked: true, other_bases: &[11], all_depth_max: true }), 3, false, &mut total));
  if !quick {
    let small: Vec<Bm> = cov_states.iter().step_by((cov_states.len() / 25).max(1)).cloned().collect();
    searches.push(search_opt(ctx, Mode::Views, "coverage-outputs-sequences-3", small, 3, true, &mut total));
  }
  searches.push(size_sweep(ctx, Mode::Views, &mut total));
  searches.push(cascade_sweep(ctx, Mode::Views, &mut total));
  searches.push(aligned_descendant_sweep(ctx, Mode::Views, &mut total));
  searches.push(same_number_sweep(ctx, Mode::Views, &mut total));
  searches.push(consecutive_number_sweep(ctx, Mode::Views, &mut total));
  // (c) builders
  let seq_universe = universe(&UniverseSpec { name: "seq", dmax: 2, chain: Chain::First, partial: true, unpacked: true, other_bases: &[11], all_depth_max: true });
  let part = par_jobs(16, |j| {
    let mut p = Part::new();
    // fixed-depth builder: runs / duplicates / unordered pushes
    let depth = 3u8;
    for start in (j as u64 * 12)..(j as u64 * 12 + 12) {
      for len in [1u64, 2, 3, 4, 5, 7, 16, 17, 64] {
        if start + len > n_hash(depth) {
          continue;
        }
        let asc: Vec<u64> = (start..start + len).collect();
        let mut unord: Vec<u64> = asc.iter().rev().cloned().collect();
        unord.extend(asc.iter().cloned().step_by(2));
        unord.push(n_hash(depth) - 1);
        for seq in [&asc, &unord] {
          for cap in [1usize, 2, 3, 5, 8, 100] {
            for full in [true, false] {
              p.stratum("fixed-depth-builder", 1, 1);
              if let Some(v) = check_fixed_builder(depth, full, cap, seq, &mut p) {
                p.viol(v);
              }
            }
          }
        }
      }
    }
    // fixed-depth builder: whole base cells (every subset of the 12 base cells at depth 0; groups of
    // consecutive base cells at depths 1 and 2; power-of-four runs from aligned starts)
    if j < 12 {
      for mask in (0..4096u32).filter(|m| m % 12 == j as u32) {
        let cells: Vec<u64> = (0..12u64).filter(|b| mask >> b & 1 == 1).collect();
        if cells.is_empty() {
          continue;
        }
        for full in [true, false] {
          p.stratum("fixed-depth-builder", 1, 1);
          if let Some(v) = check_fixed_builder(0, full, 100, &cells, &mut p) {
            p.viol(v);
          }
        }
      }
      for d in [1u8, 2] {
        let per = 1u64 << (2 * d as u32);
        for len in 1..=(12 - j as u64) {
          let cells: Vec<u64> = (j as u64 * per..(j as u64 + len) * per).collect();
          for cap in [cells.len() + 1, 7] {
            p.stratum("fixed-depth-builder", 1, 1);
            if let Some(v) = check_fixed_builder(d, true, cap, &cells, &mut p) {
              p.viol(v);
            }
          }
        }
      }
    }
    // unsafe builder on a slice of the valid-sequence universe
    for (k, bm) in seq_universe.iter().enumerate() {
      if k % 16 != j {
        continue;
      }
      for op in ["to_bmoc", "to_bmoc_from_unordered", "to_bmoc_packing"] {
        p.stratum("unsafe-builder", 1, 1);
        if let Some(v) = check_unsafe_builder(bm, op, None, &mut p) {
          p.viol(v);
        }
      }
      for nd in 0..bm.depth_max {
        for op in ["to_lower_depth_bmoc", "to_lower_depth_bmoc_packing"] {
          p.stratum("unsafe-builder", 1, 1);
          if let Some(v) = check_unsafe_builder(bm, op, Some(nd), &mut p) {
            p.viol(v);
          }
        }
      }
    }
    p
  });
  total.merge(part);
  let mut extra = Map::new();
  extra.insert("searches".into(), json!(searches));
  finish(
    ctx,
    total,
    json!({"coverage_queries": qs.len(), "distinct_coverage_outputs_of_depth_le_3": cov_states.len(),
      "operator_search": "breadth-first search under not/and/or/xor from the thinned coverage outputs: layer 1 = all ordered pairs, layer 2 (3 in the thorough tier, from 25 outputs) = every new result paired in both orders with every initial output; and the full closure (3 layers) of the complete depth-1 BMOC universe",
      "builders": "fixed-depth builder on runs / unordered / duplicated pushes x 6 capacities x 2 flags; unsafe builder (to_bmoc, from_unordered, packing, lower depth) on every valid sequence of a depth-2 universe"}),
    "every BMOC produced by the listed queries, operator transitions and builder runs",
    vec!["well-formedness validator + view expansion in bm.rs (independent decoding of the raw values)".into(), "flattened views are expanded only below 200000 deepest cells (ranges and deep size are always checked)".into()],
    extra,
  )
}

pub fn replay(case: &Value) -> Option<Viol> {
  let mut part = Part::new();
  match case.get("kind").and_then(|k| k.as_str()) {
    Some("cone") | Some("ellipse") | Some("polygon") => check_cov(&Cov::from_json(case), &mut part).1,
    Some("fixed-builder") => {
      let pushes: Vec<u64> = case["pushes"].as_array().unwrap().iter().map(u64_from_json).collect();
      check_fixed_builder(case["depth"].as_u64().unwrap() as u8, case["is_full"].as_bool().unwrap(), case["capacity"].as_u64().unwrap() as usize, &pushes, &mut part)
    }
    Some("unsafe-builder") => check_unsafe_builder(&Bm::from_json(&case["input"]), case["op"].as_str().unwrap(), case["new_depth"].as_u64().map(|x| x as u8), &mut part),
    _ => crate::c07::replay(case, Mode::Views),
  }
}
