//! C18: z-order interleaving implementations and uniq encodings -- shape S (finite domains).

use crate::refm::*;
use crate::report::*;
use cdshealpix::nested;
use cdshealpix::nested::zordercurve::{get_zoc, ZOrderCurve, LARGE_ZOC_LUT, LARGE_ZOC_XOR};
use serde_json::{json, Map, Value};

fn zoc_by_name(name: &str, depth: u8) -> Option<&'static dyn ZOrderCurve> {
  match name {
    "get_zoc" => Some(get_zoc(depth)),
    "LARGE_ZOC_LUT" => Some(&LARGE_ZOC_LUT),
    "LARGE_ZOC_XOR" => Some(&LARGE_ZOC_XOR),
    #[cfg(all(any(target_arch = "x86", target_arch = "x86_64"), target_feature = "bmi2"))]
    "LARGE_ZOC_BMI" => Some(&cdshealpix::nested::zordercurve::LARGE_ZOC_BMI),
    _ => None,
  }
}

fn impl_names() -> Vec<&'static str> {
  let mut v = vec!["get_zoc", "LARGE_ZOC_LUT", "LARGE_ZOC_XOR"];
  if cfg!(all(any(target_arch = "x86", target_arch = "x86_64"), target_feature = "bmi2")) {
    v.push("LARGE_ZOC_BMI");
  }
  v
}

fn case_json(name: &str, depth: u8, i: u32, j: u32) -> Value {
  json!({"impl": name, "depth": depth, "i": i, "j": j})
}

pub fn check_ij(name: &str, zoc: &dyn ZOrderCurve, depth: u8, i: u32, j: u32) -> Option<Viol> {
  let exp = interleave(i, j);
  let mk = |what: &str, expected: String, actual: String| {
    Some(Viol { api: format!("{}::{}", name, what), kind: "bits-differ".into(), case: case_json(name, depth, i, j), expected, actual })
  };
  let h = zoc.ij2h(i, j);
  if h != exp {
    return mk("ij2h", format!("{:#x}", exp), format!("{:#x}", h));
  }
  let a = zoc.i02h(i);
  if a != interleave(i, 0) {
    return mk("i02h", format!("{:#x}", interleave(i, 0)), format!("{:#x}", a));
  }
  let b = zoc.oj2h(j);
  if b != interleave(0, j) {
    return mk("oj2h", format!("{:#x}", interleave(0, j)), format!("{:#x}", b));
  }
  let ij = zoc.h2ij(exp);
  let (ri, rj) = (zoc.ij2i(ij), zoc.ij2j(ij));
  if (ri, rj) != (i, j) {
    return mk("h2ij", format!("({:#x}, {:#x})", i, j), format!("({:#x}, {:#x})", ri, rj));
  }
  None
}

/// Structured values below 2^bits: every byte value in every byte position, 1- and 2-bit
/// patterns, complements, extremes.
fn structured_values(bits: u32, two_bit: bool) -> Vec<u32> {
  let mask: u32 = if bits >= 32 { u32::MAX } else { (1u32 << bits) - 1 };
  let mut v: Vec<u32> = vec![0, mask, mask >> 1, 0x5555_5555 & mask, 0xAAAA_AAAA & mask, 0x3333_3333 & mask, 0x0F0F_0F0F & mask, 0x00FF_00FF & mask];
  for pos in 0..4 {
    for b in 0..256u32 {
      v.push((b << (8 * pos)) & mask);
      v.push(!(b << (8 * pos)) & mask);
    }
  }
  for a in 0..bits {
    v.push(1 << a);
    v.push(mask ^ (1 << a));
    if two_bit {
      for b in (a + 1)..bits {
        v.push((1 << a) | (1 << b));
      }
    }
  }
  v.sort();
  v.dedup();
  v
}

fn check_grid(name: &str, depth: u8, vi: &[u32], vj: &[u32], stratum: &str, part: &mut Part) {
  let zoc = match guarded(|| zoc_by_name(name, depth)) {
    Ok(Some(z)) => z,
    _ => {
      part.viol(Viol { api: name.into(), kind: "panic-in-domain".into(), case: json!({"impl": name, "depth": depth}), expected: "an implementation".into(), actual: "panic".into() });
      return;
    }
  };
  for &i in vi {
    for &j in vj {
      if let Some(v) = check_ij(name, zoc, depth, i, j) {
        part.viol(v);
      }
    }
    part.outcome(zoc.i02h(i));
  }
  let n = (vi.len() * vj.len()) as u64;
  part.stratum(stratum, n, 6 * n);
  part.validated += 5 * n;
}

fn uniq_case(depth: u8, h: u64) -> Value {
  json!({"depth": depth, "hash": h.to_string()})
}

pub fn check_uniq(depth: u8, h: u64) -> Option<Viol> {
  let r = guarded(move || {
    let u = nested::to_uniq(depth, h);
    let ui = nested::to_uniq_ivoa(depth, h);
    let l = nested::get_or_create(depth);
    (u, ui, nested::from_uniq(u), nested::from_uniq_ivoa(ui), l.to_uniq(h), l.to_uniq_ivoa(h))
  });
  let exp_u = (16u64 << (2 * depth as u32)) | h;
  let exp_ui = (4u64 << (2 * depth as u32)) + h;
  match r {
    Err(m) => Some(Viol { api: "nested::to_uniq".into(), kind: "panic-in-domain".into(), case: uniq_case(depth, h), expected: "numbers".into(), actual: m }),
    Ok((u, ui, fu, fui, lu, lui)) => {
      if u != exp_u || ui != exp_ui || fu != (depth, h) || fui != (depth, h) || lu != exp_u || lui != exp_ui {
        Some(Viol {
          api: "nested::{to,from}_uniq{,_ivoa}".into(),
          kind: "uniq-mismatch".into(),
          case: uniq_case(depth, h),
          expected: format!("to_uniq={} to_uniq_ivoa={} and both inverses give ({}, {})", exp_u, exp_ui, depth, h),
          actual: format!("to_uniq={} ivoa={} from_uniq={:?} from_uniq_ivoa={:?} Layer::to_uniq={} Layer::to_uniq_ivoa={}", u, ui, fu, fui, lu, lui),
        })
      } else {
        None
      }
    }
  }
}

fn uniq_class_hashes(depth: u8) -> Vec<u64> {
  let nh = n_hash(depth);
  let mut v = vec![0, 1, 2, 3, nh - 1, nh - 2, nh / 2, nh / 3, nh / 12, nh / 12 - 1, nh / 12 * 11];
  for b in 0..(2 * depth as u32 + 4) {
    for d in [0u64, 1] {
      let x = (1u64 << b).wrapping_sub(d);
      if x < nh {
        v.push(x);
      }
      let y = (1u64 << b) + d;
      if y < nh {
        v.push(y);
      }
    }
  }
  v.retain(|&x| x < nh);
  v.sort();
  v.dedup();
  v
}

pub fn run(ctx: &Ctx) -> i32 {
  let quick = ctx.quick();
  let (lit_ints, _) = crate::alpha::source_literals();
  // jobs
  #[derive(Clone)]
  enum Job {
    SmallAll(u8),                  // all (i, j) < 2^d, d <= 8
    MediumSlice(u8, u32, u32),     // depth 16 class, i in [lo, hi), all j < 2^16  (thorough)
    Structured(&'static str, u8),  // structured values x structured values
    UniqAll(u8, u64, u64),
    UniqClass(u8),
    Periodic(&'static str, u8),     // periodic coordinate patterns (both half-words equal, byte / nibble patterns)
    Literals(u8),                  // coordinates taken from the integer literals of the sources, all pairs
    Windows(&'static str, u8, u32, u32), // all pairs of values of a 12-bit window at the same offset in i and j, i-window values [lo, hi)
  }
  let mut jobs: Vec<Job> = vec![];
  for d in 1..=8u8 {
    jobs.push(Job::SmallAll(d));
  }
  for d in 9..=29u8 {
    jobs.push(Job::Structured("get_zoc", d));
  }
  for d in [17u8, 24, 29] {
    for name in impl_names().into_iter().skip(1) {
      jobs.push(Job::Structured(name, d));
    }
  }
  if !quick {
    // the medium class completely: all 2^32 pairs (at depth 16, the widest of the class), + depth 9..15 all pairs up to depth 12
    let step = 1u32 << 9;
    let mut lo = 0u32;
    while lo < (1 << 16) {
      jobs.push(Job::MediumSlice(16, lo, lo + step));
      lo += step;
    }
    for d in 9..=12u8 {
      let n = 1u32 << d;
      let step = (1u32 << 20) / n;
      let mut lo = 0;
      while lo < n {
        jobs.push(Job::MediumSlice(d, lo, (lo + step).min(n)));
        lo += step;
      }
    }
  }
  let d_uniq: u8 = if quick { 8 } else { 11 };
  for d in 0..=d_uniq {
    let nh = n_hash(d);
    let step = 1u64 << 20;
    let mut lo = 0;
    while lo < nh {
      jobs.push(Job::UniqAll(d, lo, (lo + step).min(nh)));
      lo += step;
    }
  }
  for d in (d_uniq + 1)..=29 {
    jobs.push(Job::UniqClass(d));
    if d >= 17 {
      jobs.push(Job::Literals(d));
    }
  }
  for d in 9..=29u8 {
    for name in if quick { vec!["get_zoc"] } else { impl_names() } {
      if zoc_by_name(name, d).is_some() {
        jobs.push(Job::Periodic(name, d));
      }
    }
  }
  // double windows: EVERY pair of values of a 12-bit window placed at the same offset in i and in
  // j (offsets 0..=17 at depth 29, other bits zero): a guard on the middle bits of both coordinates
  {
    let impls: Vec<&'static str> = if quick { vec!["get_zoc"] } else { impl_names() };
    for name in impls {
      for off in 0..=17u32 {
        for lo in (0..4096u32).step_by(256) {
          jobs.push(Job::Windows(name, 29, off, lo));
        }
      }
    }
  }
  let mut total = par_jobs(jobs.len(), |k| {
    let mut part = Part::new();
    if ctx.over_budget() {
      part.caps.push(format!("wall budget {}s reached in C18 enumeration", ctx.budget_s));
      return part;
    }
    match jobs[k].clone() {
      Job::SmallAll(d) => {
        let v: Vec<u32> = (0..(1u32 << d)).collect();
        check_grid("get_zoc", d, &v, &v, "small-class-all-pairs", &mut part);
      }
      Job::MediumSlice(d, lo, hi) => {
        let vi: Vec<u32> = (lo..hi).collect();
        let vj: Vec<u32> = (0..(1u32 << d)).collect();
        check_grid("get_zoc", d, &vi, &vj, "medium-class-all-pairs", &mut part);
      }
      Job::Structured(name, d) => {
        let v = structured_values(d as u32, quick == false || d >= 17);
        check_grid(name, d, &v, &v, if d <= 16 { "medium-class-structured" } else { "large-class-structured" }, &mut part);
        if d == 29 {
          part.sample(json!({"impl": name, "depth": d, "i": v[v.len() / 2], "j": v[v.len() / 3], "h": format!("{:#x}", interleave(v[v.len() / 2], v[v.len() / 3]))}));
        }
      }
      Job::UniqAll(d, lo, hi) => {
        for h in lo..hi {
          if let Some(v) = check_uniq(d, h) {
            part.viol(v);
          }
        }
        part.stratum("uniq-all-hashes", hi - lo, 6 * (hi - lo));
        part.validated += hi - lo;
      }
      Job::Periodic(name, d) => {
        if let Ok(Some(zoc)) = guarded(|| zoc_by_name(name, d)) {
          let mut pairs = crate::alpha::periodic_pairs(d);
          pairs.extend(crate::alpha::byte_permutation_pairs(d));
          for &(i, j) in &pairs {
            if let Some(v) = check_ij(name, zoc, d, i, j) {
              part.viol(v);
            }
          }
          let n = pairs.len() as u64;
          part.stratum("periodic-coordinate-pairs", n, 6 * n);
          part.validated += 5 * n;
        }
      }
      Job::Literals(d) => {
        let v = crate::alpha::literal_coords(&lit_ints, d);
        check_grid("get_zoc", d, &v, &v, "source-literal-pairs", &mut part);
      }
      Job::Windows(name, d, off, lo) => {
        let vi: Vec<u32> = (lo..lo + 256).map(|w| w << off).collect();
        let vj: Vec<u32> = (0..4096u32).map(|w| w << off).collect();
        check_grid(name, d, &vi, &vj, "double-12-bit-windows", &mut part);
      }
      Job::UniqClass(d) => {
        let hs = uniq_class_hashes(d);
        for &h in &hs {
          if let Some(v) = check_uniq(d, h) {
            part.viol(v);
          }
          part.outcome(hash64(&[d as u64, h]));
        }
        part.stratum("uniq-class-hashes", hs.len() as u64, 6 * hs.len() as u64);
      }
    }
    part
  });
  // depth > 29 rejected
  for d in [30u8, 31, 32, 64, 128, 255] {
    total.stratum("bad-depth", 1, 4);
    let r1 = guarded(move || nested::to_uniq(d, 0));
    let r2 = guarded(move || nested::to_uniq_ivoa(d, 0));
    let r3 = guarded(move || get_zoc(d).i02h(0));
    let r4 = guarded(move || nested::get_or_create(d).depth());
    for (api, ok) in [("nested::to_uniq", r1.is_ok()), ("nested::to_uniq_ivoa", r2.is_ok()), ("get_zoc", r3.is_ok()), ("nested::get_or_create", r4.is_ok())] {
      if ok {
        total.viol(Viol { api: api.into(), kind: "bad-depth-accepted".into(), case: json!({"depth": d}), expected: "panic (depth > 29)".into(), actual: "returned".into() });
      }
    }
  }
  let bmi2 = cfg!(target_feature = "bmi2");
  let mut extra = Map::new();
  extra.insert("target_feature_bmi2".into(), json!(bmi2));
  extra.insert("implementations".into(), json!(impl_names()));
  finish(
    ctx,
    total,
    json!({"small_class": "all (i,j) < 2^d for every d in 1..=8",
      "medium_class": if quick { "structured values (all byte values in all byte positions, 1-bit patterns, complements) squared, every d in 9..=16" } else { "all 2^32 pairs at depth 16, all pairs at depths 9..=12, structured elsewhere" },
      "large_class": "structured values (bytes, 1- and 2-bit patterns, complements) squared, every d in 17..=29; LUT, XOR (and BMI when compiled in) variants at depths 17, 24, 29",
      "uniq": format!("all hashes for depth <= {}, class hashes (powers of two +-1, extremes) to depth 29", d_uniq)}),
    "the (i, j) domains and (depth, hash) domains listed in bounds, completely",
    vec!["reference bit interleaving by a 32-step loop (R5)".into(), "injectivity of the uniq encodings follows from the checked left inverses".into()],
    extra,
  )
}

pub fn replay(case: &Value) -> Option<Viol> {
  if case.get("impl").is_some() {
    let name = case["impl"].as_str().unwrap().to_string();
    let depth = case["depth"].as_u64().unwrap() as u8;
    let i = case["i"].as_u64().unwrap() as u32;
    let j = case["j"].as_u64().unwrap() as u32;
    let zoc = zoc_by_name(&name, depth)?;
    check_ij(&name, zoc, depth, i, j)
  } else if case.get("hash").is_some() {
    check_uniq(case["depth"].as_u64().unwrap() as u8, u64_from_json(&case["hash"]))
  } else {
    let d = case["depth"].as_u64().unwrap() as u8;
    if guarded(move || nested::to_uniq(d, 0)).is_ok() {
      Some(Viol { api: "nested::to_uniq".into(), kind: "bad-depth-accepted".into(), case: case.clone(), expected: "panic".into(), actual: "returned".into() })
    } else {
      None
    }
  }
}
