//! C07 / C08 (and the operator part of C09): explicit-state search over BMOC values -- shape E.
//!
//! States are canonicalised BMOC values (depth_max + entry list).  The initial frontier is a
//! universe of *all* valid (B)MOCs of a bounded tree shape; transitions apply the real
//! not/and/or/xor to already-reached states; results that are new states are fed back as
//! operands in the next layer (breadth-first, with a visited set).  Every transition is compared
//! with the three-valued range model R4, every state satisfies the well-formedness invariant.

use crate::bm::*;
use crate::report::*;
use cdshealpix::nested::bmoc::BMOC;
use serde_json::{json, Map, Value};
use std::collections::HashSet;

#[derive(Clone, Copy, PartialEq, Debug)]
pub enum Mode {
  Moc,   // C07: all flags full, canonical form required
  Bmoc,  // C08: all flag mixes, map equality
  Views, // C09: well-formedness + agreement of the views of every result
}

#[derive(Clone, Copy, PartialEq, Eq, Debug)]
pub enum Op {
  Not,
  And,
  Or,
  Xor,
}
const BIN_OPS: [Op; 3] = [Op::And, Op::Or, Op::Xor];

fn op_name(op: Op) -> &'static str {
  match op {
    Op::Not => "not",
    Op::And => "and",
    Op::Or => "or",
    Op::Xor => "xor",
  }
}

// ---------------------------------------------------------------------------------------------
// universes
// ---------------------------------------------------------------------------------------------

#[derive(Clone, Copy, Debug, PartialEq)]
pub enum Chain {
  First,     // subdivide the first descendant at each level ("child 0 ...")
  Last,      // subdivide the last descendant ("child 3 ...")
  Both,      // both
  All(u8),   // every cell down to the given depth (complete trees)
}

fn on_chain(chain: Chain, base: u64, depth: u8, hash: u64) -> bool {
  let first = base << (2 * depth as u32);
  let last = ((base + 1) << (2 * depth as u32)) - 1;
  match chain {
    Chain::First => hash == first,
    Chain::Last => hash == last,
    Chain::Both => hash == first || hash == last,
    Chain::All(d) => depth < d,
  }
}

/// All possible contents (entry lists) of the subtree rooted at (depth, hash).
fn contents(base: u64, depth: u8, hash: u64, dmax: u8, chain: Chain, partial: bool, unpacked: bool) -> Vec<Vec<Entry>> {
  let mut out: Vec<Vec<Entry>> = vec![vec![], vec![(depth, hash, true)]];
  if partial {
    out.push(vec![(depth, hash, false)]);
  }
  if depth < dmax && on_chain(chain, base, depth, hash) {
    let kids: Vec<Vec<Vec<Entry>>> = (0..4).map(|k| contents(base, depth + 1, (hash << 2) | k, dmax, chain, partial, unpacked)).collect();
    for a in &kids[0] {
      for b in &kids[1] {
        for c in &kids[2] {
          for d in &kids[3] {
            if a.is_empty() && b.is_empty() && c.is_empty() && d.is_empty() {
              continue;
            }
            let is_full_leaf = |v: &Vec<Entry>| v.len() == 1 && v[0].0 == depth + 1 && v[0].2;
            if !unpacked && is_full_leaf(a) && is_full_leaf(b) && is_full_leaf(c) && is_full_leaf(d) {
              continue;
            }
            let mut v = Vec::with_capacity(a.len() + b.len() + c.len() + d.len());
            v.extend_from_slice(a);
            v.extend_from_slice(b);
            v.extend_from_slice(c);
            v.extend_from_slice(d);
            out.push(v);
          }
        }
      }
    }
  }
  out
}

pub struct UniverseSpec {
  pub name: &'static str,
  pub dmax: u8,
  pub chain: Chain,
  pub partial: bool,
  pub unpacked: bool,
  /// base cells allowed as leaves besides base cell 0 (which carries the tree)
  pub other_bases: &'static [u64],
  /// every depth_max from the minimal one to dmax (true) or only dmax (false)
  pub all_depth_max: bool,
}

pub fn universe(spec: &UniverseSpec) -> Vec<Bm> {
  let tree = contents(0, 0, 0, spec.dmax, spec.chain, spec.partial, spec.unpacked);
  let mut others: Vec<Vec<Entry>> = vec![vec![]];
  for &b in spec.other_bases {
    let mut next = vec![];
    for o in &others {
      let mut states = vec![None, Some(true)];
      if spec.partial {
        states.push(Some(false));
      }
      for s in states {
        let mut v = o.clone();
        if let Some(f) = s {
          v.push((0u8, b, f));
        }
        next.push(v);
      }
    }
    others = next;
  }
  let mut out = vec![];
  for t in &tree {
    for o in &others {
      let mut entries = t.clone();
      entries.extend_from_slice(o);
      let dmin = entries.iter().map(|e| e.0).max().unwrap_or(0);
      if spec.all_depth_max {
        for dm in dmin..=spec.dmax {
          out.push(Bm::new(dm, entries.clone()));
        }
      } else {
        out.push(Bm::new(spec.dmax.max(dmin), entries));
      }
    }
  }
  out
}

/// Degenerate shapes at large depth_max.
pub fn deep_states(partial: bool) -> Vec<Bm> {
  let mut v = vec![];
  for &dm in &[8u8, 16, 29] {
    let nh = n_hash(dm);
    v.push(Bm::new(dm, vec![]));
    v.push(Bm::new(dm, (0..12).map(|b| (0u8, b, true)).collect()));
    v.push(Bm::new(dm, vec![(dm, 0, true)]));
    v.push(Bm::new(dm, vec![(dm, nh - 1, true)]));
    v.push(Bm::new(dm, vec![(dm, nh / 2 + 5, true)]));
    v.push(Bm::new(dm, vec![(dm, 3, true), (dm / 2, n_hash(dm / 2) / 3, true), (0, 11, true)]));
    v.push(Bm::new(dm, vec![(1, 0, true), (dm, (1u64 << (2 * dm as u32 - 2)) + 1, true), (dm, nh - 4, true), (dm, nh - 3, true), (dm, nh - 2, true), (dm, nh - 1, true)]));
    if partial {
      v.push(Bm::new(dm, vec![(dm, 0, false)]));
      v.push(Bm::new(dm, vec![(0, 0, false), (dm, nh - 1, true)]));
      v.push(Bm::new(dm, vec![(dm - 1, 0, false), (dm, 4, true), (dm, 5, false), (2, 17, false)]));
      v.push(Bm::new(dm, (0..12).map(|b| (0u8, b, b % 2 == 0)).collect()));
    }
  }
  v
}

// ---------------------------------------------------------------------------------------------
// one transition
// ---------------------------------------------------------------------------------------------

fn apply(op: Op, a: &BMOC, b: Option<&BMOC>) -> Result<BMOC, String> {
  guarded(|| match op {
    Op::Not => a.not(),
    Op::And => a.and(b.unwrap()),
    Op::Or => a.or(b.unwrap()),
    Op::Xor => a.xor(b.unwrap()),
  })
}

fn ref_apply(op: Op, a: &RangeMap, b: Option<&RangeMap>) -> RangeMap {
  match op {
    Op::Not => a.not(),
    Op::And => a.and(b.unwrap()),
    Op::Or => a.or(b.unwrap()),
    Op::Xor => a.xor(b.unwrap()),
  }
}

fn case_json(op: Op, a: &Bm, b: Option<&Bm>) -> Value {
  json!({"op": op_name(op), "left": a.to_json(), "right": b.map(|x| x.to_json())})
}

/// Execute one transition on the real code and compare it with the reference model.
/// Returns the resulting state (if the subject produced one) and a violation (if any).
pub fn transition(mode: Mode, op: Op, a: &Bm, ai: &BMOC, am: &RangeMap, b: Option<(&Bm, &BMOC, &RangeMap)>, part: &mut Part) -> (Option<Bm>, Option<Viol>) {
  let api = format!("BMOC::{}", op_name(op));
  journal(&api, || case_json(op, a, b.map(|x| x.0)));
  let res = apply(op, ai, b.map(|x| x.1));
  let bb = b.map(|x| x.0);
  let res = match res {
    Ok(r) => r,
    Err(m) => {
      return (None, Some(Viol { api, kind: "panic".into(), case: case_json(op, a, bb), expected: "a BMOC".into(), actual: format!("panic: {}", m) }));
    }
  };
  let out = Bm::from_impl(&res);
  let expected = ref_apply(op, am, b.map(|x| x.2));
  part.validated += 1;
  let exp_dm = a.depth_max.max(bb.map(|x| x.depth_max).unwrap_or(0));
  let mk = |kind: &str, expected: String, actual: String| Some(Viol { api: api.clone(), kind: kind.into(), case: case_json(op, a, bb), expected, actual });
  if mode == Mode::Views {
    if let Err(e) = check_views(&res, 50_000) {
      return (Some(out), mk("views-disagree", "a well-formed BMOC whose views agree".into(), e));
    }
    return (Some(out), None);
  }
  let got = match out.to_map() {
    Ok(m) => m,
    Err(e) => return (None, mk("malformed-result", format!("a valid BMOC with map {}", expected.describe()), format!("{} ({})", out.describe(), e))),
  };
  if out.depth_max != exp_dm {
    return (Some(out.clone()), mk("wrong-depth-max", format!("depth_max {}", exp_dm), format!("{}", out.describe())));
  }
  if got != expected {
    return (Some(out.clone()), mk("wrong-map", expected.describe(), format!("{} = {}", out.describe(), got.describe())));
  }
  let operands_canonical = RangeMap::has_four_full_siblings(a).is_none() && bb.map(|x| RangeMap::has_four_full_siblings(x).is_none()).unwrap_or(true);
  if mode == Mode::Moc && operands_canonical {
    // canonical packed form (required when the operands are themselves canonical MOCs)
    let canon = expected.canonical_moc();
    if out.entries != canon {
      let cd = Bm::new(exp_dm, canon).describe();
      return (Some(out.clone()), mk("not-canonical", cd, out.describe()));
    }
  }
  (Some(out), None)
}

// ---------------------------------------------------------------------------------------------
// the search
// ---------------------------------------------------------------------------------------------

struct StateTab {
  bms: Vec<Bm>,
  impls: Vec<BMOC>,
  maps: Vec<RangeMap>,
  seen: HashSet<Bm>,
}

impl StateTab {
  fn new() -> StateTab {
    StateTab { bms: vec![], impls: vec![], maps: vec![], seen: HashSet::new() }
  }
  /// returns true if the state is new
  fn add(&mut self, bm: Bm) -> bool {
    if self.seen.contains(&bm) {
      return false;
    }
    let map = match bm.to_map() {
      Ok(m) => m,
      Err(_) => return false, // malformed results are reported, not explored further
    };
    self.seen.insert(bm.clone());
    self.impls.push(bm.to_impl());
    self.maps.push(map);
    self.bms.push(bm);
    true
  }
}

/// Breadth-first search from the universe `init`: layer 1 = not(s) for all s and all ordered
/// pairs x {and, or, xor}; further layers pair the new states with everything known, up to
/// `max_layers` or the fix-point.  `pair_cap` bounds the number of binary transitions of the
/// layers after the first (a capped layer is reported as such).
pub fn search(ctx: &Ctx, mode: Mode, name: &str, init: Vec<Bm>, max_layers: usize, total: &mut Part) -> Value {
  search_opt(ctx, mode, name, init, max_layers, false, total)
}

/// `initial_partner_only`: in the layers after the first, a new state is paired (both orders) with the
/// initial states only (operator sequences whose other operand is always an initial value).
pub fn search_opt(ctx: &Ctx, mode: Mode, name: &str, init: Vec<Bm>, max_layers: usize, initial_partner_only: bool, total: &mut Part) -> Value {
  let mut tab = StateTab::new();
  for s in init {
    tab.add(s);
  }
  let n0 = tab.bms.len();
  total.stratum(&format!("{}:initial", name), n0 as u64, 0);
  let mut frontier_lo = 0usize; // states [frontier_lo, frontier_hi) are new in this layer
  let mut layers_done = 0usize;
  let mut fixpoint = false;
  let mut layer_info = vec![];
  while layers_done < max_layers {
    let hi = tab.bms.len();
    if frontier_lo == hi {
      fixpoint = layers_done > 0;
      break;
    }
    // jobs: one per "new" left or right operand index
    let lo = frontier_lo;
    let tabref = &tab;
    let part = par_jobs(hi - lo, |j| {
      let mut p = Part::new();
      let mut fresh: Vec<Bm> = vec![];
      let mut local_seen: HashSet<Bm> = HashSet::new();
      if ctx.over_budget() {
        p.caps.push(format!("wall budget {}s reached in layer {} of search {}", ctx.budget_s, layers_done + 1, name));
        return p;
      }
      let i = lo + j;
      let (a, ai, am) = (&tabref.bms[i], &tabref.impls[i], &tabref.maps[i]);
      let mut record = |r: (Option<Bm>, Option<Viol>), p: &mut Part| {
        if let Some(v) = r.1 {
          p.viol(v);
        }
        if let Some(s) = r.0 {
          p.outcome(hash64(&[s.depth_max as u64, s.entries.len() as u64, s.entries.iter().fold(0u64, |acc, e| acc.wrapping_mul(1_000_003) ^ (e.1 << 6) ^ ((e.0 as u64) << 1) ^ e.2 as u64)]));
          if !tabref.seen.contains(&s) && !local_seen.contains(&s) {
            local_seen.insert(s.clone());
            fresh.push(s);
          }
        }
      };
      let r = transition(mode, Op::Not, a, ai, am, None, &mut p);
      p.transitions += 1;
      record(r, &mut p);
      // pairs (i, k) and (k, i) for all k < hi; pairs among new states are visited once from each side
      let k_hi = if initial_partner_only && layers_done > 0 { n0 } else { hi };
      for k in 0..k_hi {
        let (b, bi, bmm) = (&tabref.bms[k], &tabref.impls[k], &tabref.maps[k]);
        for &op in &BIN_OPS {
          let r = transition(mode, op, a, ai, am, Some((b, bi, bmm)), &mut p);
          p.transitions += 1;
          record(r, &mut p);
          if k < lo {
            // (old, new) ordered pair is not generated from the old side: do it here
            let r = transition(mode, op, b, bi, bmm, Some((a, ai, am)), &mut p);
            p.transitions += 1;
            record(r, &mut p);
          }
        }
      }
      // hand the fresh states back (they are the operands of the next layer); in the last layer
      // they are only counted, through fingerprints
      if layers_done + 1 < max_layers {
        p.payload.extend(fresh.iter().map(|s| s.to_json()));
      } else {
        for s in &fresh {
          let mut words: Vec<u64> = vec![s.depth_max as u64];
          for e in &s.entries {
            words.push(((e.0 as u64) << 62) ^ (e.1 << 1) ^ e.2 as u64);
          }
          p.fps.insert(hash64(&words));
        }
      }
      p
    });
    // merge: collect fresh states in job order
    let mut part = part;
    let mut fresh_all: Vec<Bm> = vec![];
    for f in std::mem::take(&mut part.payload) {
      fresh_all.push(Bm::from_json(&f));
    }
    let capped = !part.caps.is_empty();
    let trans = part.transitions;
    total.merge(part);
    frontier_lo = hi;
    let mut added = 0u64;
    for s in fresh_all {
      if tab.add(s) {
        added += 1;
      }
    }
    if layers_done + 1 >= max_layers {
      added = total.fps.len() as u64;
      total.fps.clear();
    }
    layers_done += 1;
    total.stratum(&format!("{}:layer{}", name, layers_done), added, 0);
    layer_info.push(json!({"layer": layers_done, "operand_states": hi, "transitions": trans, "new_states": added, "capped": capped}));
    if capped {
      break;
    }
  }
  if let Some(last) = layer_info.last() {
    if last["new_states"] == json!(0) && last["capped"] == json!(false) {
      fixpoint = true;
    }
  }
  // a few samples
  for k in [0usize, n0 / 2, tab.bms.len() - 1] {
    if k < tab.bms.len() {
      total.sample(json!({"search": name, "state": tab.bms[k].describe()}));
    }
  }
  json!({"search": name, "initial_states": n0, "states": tab.bms.len(), "layers": layer_info, "fixpoint_reached": fixpoint, "later_layers_pair_with_initial_states_only": initial_partner_only})
}


// ---------------------------------------------------------------------------------------------
// size sweep: every operand size 1..=N of a few operand shapes (a threshold, chunk size or skip
// length hidden in an operator shows at one specific count only)
// ---------------------------------------------------------------------------------------------

const SW_DC: u8 = 3; // depth of the coarse cells
const SW_DF: u8 = 10; // depth of the fine cells
const SW_C: u64 = 7 * 64 + 37; // a generic depth-3 cell (base cell 7)

/// The operand pairs of size n (fine cells of depth SW_DF inside coarse cells of depth SW_DC).
fn sweep_pairs(n: u64, partial: bool) -> Vec<(&'static str, Bm, Bm)> {
  sweep_pairs_at(n, partial, SW_DC, SW_DF, SW_C)
}

/// The operand pairs of size n: fine cells of depth `df` inside coarse cells of depth `dc` around
/// the coarse cell `c` (4 n <= 4^(df - dc): the interleaved runs stay inside the coarse cell).
fn sweep_pairs_at(n: u64, partial: bool, dc: u8, df: u8, c0: u64) -> Vec<(&'static str, Bm, Bm)> {
  assert!(4 * n <= 1u64 << (2 * (df - dc) as u32));
  let sw_first = |c: u64| -> u64 { c << (2 * (df - dc) as u32) };
  let full = |k: u64| !partial || k % 3 != 1;
  let cf = !partial; // flag of the coarse cells in the flagged variant
  let fine = |c: u64, n: u64, stride: u64, off: u64| -> Vec<Entry> { (0..n).map(|k| (df, sw_first(c) + stride * k + off, full(k))).collect() };
  let mut v = vec![];
  // F1: one coarse cell against n fine cells inside it + one fine cell after it
  let mut b = fine(c0, n, 3, 1);
  b.push((df, sw_first(c0 + 1) + 5, true));
  v.push(("contained-run", Bm::new(dc, vec![(dc, c0, true)]), Bm::new(df, b.clone())));
  if partial {
    v.push(("contained-run-partial-coarse", Bm::new(dc, vec![(dc, c0, false)]), Bm::new(df, b.clone())));
  }
  // F2: same depth_max, cells before and after on both sides
  let mut a2 = vec![(df, sw_first(c0 - 1) + 2, true), (dc, c0, cf || true), (df, sw_first(c0 + 2) + 9, full(1))];
  a2.sort_by_key(|e| e.1 << (2 * (df - e.0) as u32));
  let mut b2 = vec![(df, sw_first(c0 - 1) + 7, true)];
  b2.extend(fine(c0, n, 3, 1));
  b2.push((df, sw_first(c0 + 1) + 5, true));
  b2.push((df, sw_first(c0 + 3) + 1, true));
  v.push(("contained-run-same-depth-max", Bm::new(df, a2), Bm::new(df, b2)));
  // F3: two interleaved runs of the same level
  let mut b3 = fine(c0, n, 4, 2);
  b3.push((df, sw_first(c0 + 1) + 5, true));
  v.push(("interleaved-runs", Bm::new(df, fine(c0, n, 4, 0)), Bm::new(df, b3)));
  // F4: two coarse cells, n fine cells in the first, 7 in the second, one after
  let mut b4 = fine(c0, n, 3, 1);
  b4.extend(fine(c0 + 1, 7, 5, 2));
  b4.push((df, sw_first(c0 + 2), true));
  v.push(("two-coarse-cells", Bm::new(dc, vec![(dc, c0, true), (dc, c0 + 1, cf)]), Bm::new(df, b4)));
  // F5: identical runs and runs shifted by one cell (equal / adjacent entries)
  v.push(("identical-runs", Bm::new(df, fine(c0, n, 3, 1)), Bm::new(df, fine(c0, n, 3, 1))));
  v.push(("adjacent-runs", Bm::new(df, fine(c0, n, 3, 1)), Bm::new(df, fine(c0, n, 3, 2))));
  // F6: a shallower ancestor (depth 1) against the run, different depth_max
  let mut b6 = fine(c0, n, 3, 1);
  b6.push((dc, c0 + 64, true));
  v.push(("ancestor-depth-1", Bm::new(1, vec![(1, c0 >> (2 * (dc - 1) as u32), true)]), Bm::new(df, b6)));
  // F7: the operand of n cells starts first (a cell before the coarse cell), the other operand
  // starts later with a coarse cell that contains the whole run / with a cell of intermediate
  // depth in the middle of the run / with one fine cell of the run (a skip of the "useless"
  // beginning of the long operand must not lose the cells inside the first cell of the other one)
  let mut b7 = vec![(df, sw_first(c0 - 1) + 7, true)];
  b7.extend(fine(c0, n, 3, 1));
  v.push(("long-starts-first-coarse-later", Bm::new(dc, vec![(dc, c0, cf)]), Bm::new(df, b7.clone())));
  let dm = dc + (df - dc) / 2; // intermediate depth
  let mid_fine = sw_first(c0) + 3 * (n / 2) + 1; // the fine cell number n/2 of the run
  let mid_cell = mid_fine >> (2 * (df - dm) as u32);
  v.push(("long-starts-first-mid-cell-later", Bm::new(dm, vec![(dm, mid_cell, true)]), Bm::new(df, b7.clone())));
  let mut a7 = vec![(df, mid_fine, true), (df, sw_first(c0 + 1) + 2, full(2))];
  a7.dedup();
  v.push(("long-starts-first-fine-cell-later", Bm::new(df, a7), Bm::new(df, b7)));
  v
}

/// Replay form of a long sweep operand pair: the generator parameters instead of 10^6 entries.
fn compact_case(v: &mut Viol, gen: &Option<Value>, name: &str, swapped: bool) {
  if let Some(g) = gen {
    let mut g = g.clone();
    g["shape"] = json!(name);
    g["swapped"] = json!(swapped);
    v.case = json!({"op": v.case["op"], "generator": g});
  }
}

fn sweep_one(mode: Mode, stratum: &str, pairs: Vec<(&'static str, Bm, Bm)>, n: u64, gen: Option<Value>, part: &mut Part) {
  for (name, a, b) in pairs {
    let (ai, bi) = (a.to_impl(), b.to_impl());
    let (am, bm) = match (a.to_map(), b.to_map()) {
      (Ok(x), Ok(y)) => (x, y),
      (x, y) => panic!("oracle: malformed sweep operand {} n={} {:?} {:?}", name, n, x.err(), y.err()),
    };
    let key = format!("{}:{}", stratum, name);
    part.stratum(&key, 2, 0);
    for (swapped, (x, xi, xm, y, yi, ym)) in [(&a, &ai, &am, &b, &bi, &bm), (&b, &bi, &bm, &a, &ai, &am)].into_iter().enumerate() {
      for op in BIN_OPS {
        part.stratum(&key, 0, 1);
        let (out, v) = transition(mode, op, x, xi, xm, Some((y, yi, ym)), part);
        if let Some(o) = out {
          part.outcome(hash64(&[o.entries.len() as u64, o.depth_max as u64, o.entries.first().map(|e| e.1).unwrap_or(0), o.entries.last().map(|e| e.1).unwrap_or(0)]));
        }
        if let Some(mut v) = v {
          compact_case(&mut v, &gen, name, swapped == 1);
          part.viol(v);
        }
      }
      part.stratum(&key, 0, 1);
      if let (_, Some(mut v)) = transition(mode, Op::Not, x, xi, xm, None, part) {
        compact_case(&mut v, &gen, name, swapped == 1);
        part.viol(v);
      }
    }
  }
}

pub fn size_sweep(ctx: &Ctx, mode: Mode, total: &mut Part) -> Value {
  let nmax: u64 = if ctx.quick() { 520 } else { 4000 }; // 4 * nmax < 4^7 (the interleaved runs stay inside the coarse cell)
  let partial = mode != Mode::Moc;
  let chunk = 8u64;
  let njobs = ((nmax + chunk - 1) / chunk) as usize;
  let part = par_jobs(njobs, |j| {
    let mut part = Part::new();
    if ctx.over_budget() {
      part.caps.push(format!("wall budget {}s reached in the size sweep", ctx.budget_s));
      return part;
    }
    for n in (j as u64 * chunk + 1)..=((j as u64 + 1) * chunk).min(nmax) {
      sweep_one(mode, "size-sweep", sweep_pairs(n, partial), n, None, &mut part);
    }
    part
  });
  total.merge(part);
  // long operands: the sizes 2^k - 1, 2^k, 2^k + 1 (a switch to another algorithm -- binary search,
  // galloping, chunking -- for "large" operands is placed at a power of two)
  let kmax: u32 = if ctx.quick() { 15 } else { 20 };
  let sizes: Vec<u64> = (10..=kmax).flat_map(|k| [(1u64 << k) - 1, 1u64 << k, (1u64 << k) + 1]).collect();
  let part = par_jobs(sizes.len(), |j| {
    let mut part = Part::new();
    if ctx.over_budget() {
      part.caps.push(format!("wall budget {}s reached in the long-operand sweep", ctx.budget_s));
      return part;
    }
    // fine cells of depth 14 inside the depth-2 cell 7 * 16 + 9
    let gen = json!({"n": sizes[j], "partial": partial, "dc": 2, "df": 14, "c0": 7 * 16 + 9});
    sweep_one(mode, "long-operands", sweep_pairs_at(sizes[j], partial, 2, 14, 7 * 16 + 9), sizes[j], Some(gen), &mut part);
    part
  });
  total.merge(part);
  json!({"search": "size-sweep", "operand_sizes": format!("1..={}", nmax), "long_operand_sizes": format!("2^k - 1, 2^k, 2^k + 1 for k = 10..={}", kmax),
    "shapes": sweep_pairs(1, partial).iter().map(|s| s.0).collect::<Vec<_>>(),
    "transitions_per_pair": "and, or, xor in both operand orders, not of each operand"})
}


// ---------------------------------------------------------------------------------------------
// merge cascades: staircases (three full siblings per level along a path, four at the deepest
// level) pack into one cell through a cascade of k merges on 3k + 1 entries -- every k
// ---------------------------------------------------------------------------------------------

/// Staircase under the cell (top_depth, root) down to depth_max `dm` along the child path `path`.
/// Returns (entries without the last path child, the last path child).
pub fn staircase(top_depth: u8, root: u64, dm: u8, path: u8) -> (Vec<Entry>, Entry) {
  let mut entries: Vec<Entry> = vec![];
  let mut cur = root;
  for l in (top_depth + 1)..=dm {
    let p = match path {
      0 => 0,
      1 => 3,
      2 => 1 + (l as u64 % 2),
      _ => (l as u64 * 2_654_435_761 >> 7) % 4,
    };
    for i in 0..4u64 {
      if i != p {
        entries.push((l, cur * 4 + i, true));
      }
    }
    cur = cur * 4 + p;
  }
  entries.sort_by_key(|e| e.1 << (2 * (dm - e.0) as u32));
  (entries, (dm, cur, true))
}

pub fn cascade_sweep(ctx: &Ctx, mode: Mode, total: &mut Part) -> Value {
  let mut n = 0u64;
  for dm in 1..=29u8 {
    for (top, root) in [(0u8, 5u64), (2, 117)] {
      if top >= dm {
        continue;
      }
      for path in 0..4u8 {
        if ctx.over_budget() {
          total.caps.push(format!("wall budget {}s reached in the cascade sweep", ctx.budget_s));
          break;
        }
        let (stairs, last) = staircase(top, root, dm, path);
        let mut whole = stairs.clone();
        whole.push(last);
        whole.sort_by_key(|e| e.1 << (2 * (dm - e.0) as u32));
        // operands: the staircase without its last cell, the last cell alone (at depth_max dm and,
        // flagged variant, partial), the whole (unpacked) staircase, the root cell
        let a = Bm::new(dm, stairs.clone());
        let mut ops: Vec<Bm> = vec![Bm::new(dm, vec![last]), Bm::new(dm, whole.clone()), Bm::new(top, vec![(top, root, true)])];
        if mode != Mode::Moc {
          ops.push(Bm::new(dm, vec![(last.0, last.1, false)]));
          let mut w2 = whole.clone();
          let mid = w2.len() / 2;
          w2[mid].2 = false;
          ops.push(Bm::new(dm, w2));
        }
        let (ai, am) = (a.to_impl(), a.to_map().expect("oracle: staircase"));
        for b in &ops {
          let (bi, bm) = (b.to_impl(), b.to_map().expect("oracle: staircase operand"));
          total.stratum("merge-cascades", 2, 0);
          n += 1;
          for (x, xi, xm, y, yi, ym) in [(&a, &ai, &am, b, &bi, &bm), (b, &bi, &bm, &a, &ai, &am)] {
            for op in BIN_OPS {
              total.stratum("merge-cascades", 0, 1);
              let (out, v) = transition(mode, op, x, xi, xm, Some((y, yi, ym)), total);
              if let Some(o) = out {
                total.outcome(hash64(&[o.entries.len() as u64, o.depth_max as u64, o.entries.first().map(|e| e.1).unwrap_or(0)]));
              }
              if let Some(v) = v {
                total.viol(v);
              }
            }
          }
          total.stratum("merge-cascades", 0, 1);
          if let (_, Some(v)) = transition(mode, Op::Not, b, &bi, &bm, None, total) {
            total.viol(v);
          }
        }
      }
    }
  }
  json!({"search": "merge-cascades", "operand_pairs": n, "cascade_lengths": "every k = 1..=29 (depth_max 1..=29 under a depth-0 and a depth-2 cell), 4 child paths",
    "operands": "staircase without its last cell x {last cell, whole unpacked staircase, root cell (+ partial last cell, one partial stair for flagged modes)}"})
}


// ---------------------------------------------------------------------------------------------
// aligned descendants: a coarse cell L against one deep cell whose offset inside L is j * 4^k
// (first descendant, k levels down, of the j-th cell k levels above the deep depth) -- every k:
// offsets computed in a narrower integer, or "first descendant" shortcuts, fail on one such k
// ---------------------------------------------------------------------------------------------

pub fn aligned_descendant_sweep(ctx: &Ctx, mode: Mode, total: &mut Part) -> Value {
  let mut n = 0u64;
  for (dl, l) in [(0u8, 7u64), (2, 117), (4, 1000)] {
    for dm in [20u8, 29] {
      let span = 2 * (dm - dl) as u32;
      for k in 0..(dm - dl) as u32 {
        for j in [1u64, 2, 3, 5, 6] {
          let off0 = j << (2 * k);
          if off0 >> span != 0 {
            continue;
          }
          if ctx.over_budget() {
            total.caps.push(format!("wall budget {}s reached in the aligned-descendant sweep", ctx.budget_s));
            return json!({"search": "aligned-descendants", "capped": true});
          }
          // the aligned descendant, and the one just before it (its k low base-4 digits are all 3:
          // it looks like the last descendant of a cell k levels up, in any test made on k digits)
          for off in [off0, off0 - 1] {
          let deep = (l << span) + off;
          // flag mixes (Moc mode: all full)
          let mixes: &[(bool, bool)] = if mode == Mode::Moc { &[(true, true)] } else { &[(true, true), (false, true), (true, false), (false, false)] };
          for &(fl, fd) in mixes {
            let a = Bm::new(dl, vec![(dl, l, fl)]);
            // the deep cell alone, and together with a later deep cell in the same coarse cell and a cell after it
            let mut e2 = vec![(dm, deep, fd)];
            let last = (l << span) + ((1u64 << span) - 1);
            if last != deep {
              e2.push((dm, last, true));
            }
            let bs = [Bm::new(dm, vec![(dm, deep, fd)]), Bm::new(dm, e2)];
            let (ai, am) = (a.to_impl(), a.to_map().expect("oracle: aligned operand"));
            for b in &bs {
              let (bi, bm) = (b.to_impl(), b.to_map().expect("oracle: aligned operand"));
              total.stratum("aligned-descendants", 2, 0);
              n += 1;
              for (x, xi, xm, y, yi, ym) in [(&a, &ai, &am, b, &bi, &bm), (b, &bi, &bm, &a, &ai, &am)] {
                for op in BIN_OPS {
                  total.stratum("aligned-descendants", 0, 1);
                  let (out, v) = transition(mode, op, x, xi, xm, Some((y, yi, ym)), total);
                  if let Some(o) = out {
                    total.outcome(hash64(&[o.entries.len() as u64, o.depth_max as u64, o.entries.first().map(|e| e.1).unwrap_or(0)]));
                  }
                  if let Some(v) = v {
                    total.viol(v);
                  }
                }
              }
              total.stratum("aligned-descendants", 0, 1);
              if let (_, Some(v)) = transition(mode, Op::Not, b, &bi, &bm, None, total) {
                total.viol(v);
              }
            }
          }
          }
        }
      }
    }
  }
  json!({"search": "aligned-descendants", "operand_pairs": n, "coarse_cells": "depth 0, 2, 4", "deep_depth_max": [20, 29],
    "offsets": "j * 4^k and j * 4^k - 1 for every k below the depth difference, j in {1, 2, 3, 5, 6}", "flags": "all four mixes for the flagged modes"})
}


// ---------------------------------------------------------------------------------------------
// same cell NUMBER at two depths: (d, j) and (d', j), d' < d, j >= 1 are disjoint cells that share
// their hash number; code comparing hashes without (or with a clamped) depth difference confuses them
// ---------------------------------------------------------------------------------------------

pub fn same_number_sweep(ctx: &Ctx, mode: Mode, total: &mut Part) -> Value {
  let mut n = 0u64;
  for dm in [2u8, 3, 6] {
    for d in 1..=dm.min(4) {
      for dp in 0..d {
        for j in 1..(12u64 << (2 * dp as u32)).min(40) {
          if ctx.over_budget() {
            total.caps.push(format!("wall budget {}s reached in the same-number sweep", ctx.budget_s));
            return json!({"search": "same-number", "capped": true});
          }
          let sh = 2 * (dm - d) as u32;
          let inside = (dm, (j << sh) + if sh > 0 { 1 } else { 0 }, true);
          let mixes: &[(bool, bool, bool)] = if mode == Mode::Moc { &[(true, true, true)] } else { &[(true, true, true), (false, true, true), (true, false, true), (true, true, false), (false, false, false)] };
          for &(f1, f2, f3) in mixes {
            let a = Bm::new(d, vec![(d, j, f1)]);
            // B: a cell inside (d, j) -- or (d, j) itself when dm == d -- then the coarser cell with the same number
            let first = if dm == d { (d, j, f2) } else { (inside.0, inside.1, f2) };
            let b = Bm::new(dm, vec![first, (dp, j, f3)]);
            let (am, bm) = match (a.to_map(), b.to_map()) {
              (Ok(x), Ok(y)) => (x, y),
              _ => continue, // overlapping for this (d, d', j): not a BMOC
            };
            let (ai, bi) = (a.to_impl(), b.to_impl());
            total.stratum("same-number-cells", 2, 0);
            n += 1;
            for (x, xi, xm, y, yi, ym) in [(&a, &ai, &am, &b, &bi, &bm), (&b, &bi, &bm, &a, &ai, &am)] {
              for op in BIN_OPS {
                total.stratum("same-number-cells", 0, 1);
                let (out, v) = transition(mode, op, x, xi, xm, Some((y, yi, ym)), total);
                if let Some(o) = out {
                  total.outcome(hash64(&[o.entries.len() as u64, o.depth_max as u64, o.entries.first().map(|e| e.1).unwrap_or(0)]));
                }
                if let Some(v) = v {
                  total.viol(v);
                }
              }
            }
            total.stratum("same-number-cells", 0, 1);
            if let (_, Some(v)) = transition(mode, Op::Not, &b, &bi, &bm, None, total) {
              total.viol(v);
            }
          }
        }
      }
    }
  }
  json!({"search": "same-number", "operand_pairs": n, "shape": "{(d, j)} against {a cell inside (d, j), (d', j)} for every d' < d <= 4, j = 1..39, depth_max 2, 3, 6, all flag mixes"})
}

/// Consecutive-number cells: two disjoint cells (d, h) and (d', h + 1) with d' < d -- consecutive
/// hash numbers at different depths, possible only inside the first cell of base cell 0 -- against
/// the coarse cell (da, 0) that contains both, with every flag mix, a third cell after them, and
/// with the two cells in either operand.  (A shortcut testing `next.hash == hash + 1` without
/// comparing the depths takes them for siblings.)
pub fn consecutive_number_sweep(ctx: &Ctx, mode: Mode, total: &mut Part) -> Value {
  let mut n = 0u64;
  for dm in [3u8, 4, 5, 6] {
    for dp in 1..dm {
      for d in (dp + 1)..=dm {
        for da in 0..dp {
          let hmax = (1u64 << (2 * (dp - da) as u32)) - 2;
          for h in 1..=hmax.min(21) {
            if ctx.over_budget() {
              total.caps.push(format!("wall budget {}s reached in the consecutive-number sweep", ctx.budget_s));
              return json!({"search": "consecutive-number", "capped": true});
            }
            let mixes: &[(bool, bool, bool)] = if mode == Mode::Moc { &[(true, true, true)] } else { &[(true, true, true), (false, true, true), (false, false, true), (false, true, false), (true, false, false)] };
            for &(fa, f1, f2) in mixes {
              for with_third in [false, true] {
                let a = Bm::new(da, vec![(da, 0, fa)]);
                let mut eb = vec![(d, h, f1), (dp, h + 1, f2)];
                if with_third {
                  eb.push((dp, h + 3, true));
                }
                let b = Bm::new(dm, eb);
                let (am, bm) = match (a.to_map(), b.to_map()) {
                  (Ok(x), Ok(y)) => (x, y),
                  _ => continue,
                };
                let (ai, bi) = (a.to_impl(), b.to_impl());
                total.stratum("consecutive-number-cells", 2, 0);
                n += 1;
                for (x, xi, xm, y, yi, ym) in [(&a, &ai, &am, &b, &bi, &bm), (&b, &bi, &bm, &a, &ai, &am)] {
                  for op in BIN_OPS {
                    total.stratum("consecutive-number-cells", 0, 1);
                    let (out, v) = transition(mode, op, x, xi, xm, Some((y, yi, ym)), total);
                    if let Some(o) = out {
                      total.outcome(hash64(&[o.entries.len() as u64, o.depth_max as u64, o.entries.last().map(|e| e.1).unwrap_or(0)]));
                    }
                    if let Some(v) = v {
                      total.viol(v);
                    }
                  }
                }
                total.stratum("consecutive-number-cells", 0, 1);
                if let (_, Some(v)) = transition(mode, Op::Not, &b, &bi, &bm, None, total) {
                  total.viol(v);
                }
              }
            }
          }
        }
      }
    }
  }
  json!({"search": "consecutive-number", "operand_pairs": n, "shape": "{(da, 0)} against {(d, h), (d', h + 1)[, (d', h + 3)]} for every da < d' < d <= depth_max in 3..=6, h = 1..21, all flag mixes"})
}

pub fn specs(mode: Mode, quick: bool) -> Vec<(UniverseSpec, usize)> {
  let partial = mode != Mode::Moc;
  let mut v = vec![];
  // (spec, max_layers)
  v.push((UniverseSpec { name: "D1-complete", dmax: 1, chain: Chain::All(1), partial, unpacked: true, other_bases: &[11], all_depth_max: true }, 3));
  if mode == Mode::Moc {
    v.push((UniverseSpec { name: "D2-first", dmax: 2, chain: Chain::First, partial, unpacked: true, other_bases: &[11], all_depth_max: true }, 2));
    v.push((UniverseSpec { name: "D2-last", dmax: 2, chain: Chain::Last, partial, unpacked: true, other_bases: &[1], all_depth_max: true }, 2));
    v.push((UniverseSpec { name: "D3-first-packed", dmax: 3, chain: Chain::First, partial, unpacked: false, other_bases: &[11], all_depth_max: false }, 2));
    if !quick {
      v.push((UniverseSpec { name: "D2-both", dmax: 2, chain: Chain::Both, partial, unpacked: true, other_bases: &[11], all_depth_max: true }, 2));
      v.push((UniverseSpec { name: "D3-last", dmax: 3, chain: Chain::Last, partial, unpacked: true, other_bases: &[5, 11], all_depth_max: true }, 2));
      v.push((UniverseSpec { name: "D4-first-packed", dmax: 4, chain: Chain::First, partial, unpacked: false, other_bases: &[], all_depth_max: false }, 1));
    }
  } else {
    v.push((UniverseSpec { name: "D2-first", dmax: 2, chain: Chain::First, partial, unpacked: true, other_bases: &[], all_depth_max: false }, 2));
    if !quick {
      v.push((UniverseSpec { name: "D2-last", dmax: 2, chain: Chain::Last, partial, unpacked: true, other_bases: &[11], all_depth_max: false }, 1));
      v.push((UniverseSpec { name: "D2-first-dm", dmax: 2, chain: Chain::First, partial, unpacked: false, other_bases: &[11], all_depth_max: true }, 2));
    }
  }
  v
}

pub fn run(ctx: &Ctx, mode: Mode) -> i32 {
  let mut total = Part::new();
  let mut searches = vec![];
  for (spec, layers) in specs(mode, ctx.quick()) {
    let init = universe(&spec);
    let info = search(ctx, mode, spec.name, init, layers, &mut total);
    searches.push(info);
  }
  // deep stratum: degenerate shapes at depth_max 8, 16, 29 (+ a small universe for depth mixes)
  let mut deep = deep_states(mode != Mode::Moc);
  deep.extend(universe(&UniverseSpec { name: "D1", dmax: 1, chain: Chain::First, partial: mode != Mode::Moc, unpacked: false, other_bases: &[11], all_depth_max: false }));
  let info = search(ctx, mode, "deep-degenerate", deep, if mode == Mode::Moc { 2 } else { 1 }, &mut total);
  searches.push(info);
  // operands of realistic size: coverage outputs at depths 5..8 (hundreds to thousands of cells,
  // many depth levels per operand); for C07 they are turned into canonical all-full MOCs
  let cov = coverage_operands(mode, ctx.quick());
  let info = search(ctx, mode, "coverage-sized-operands", cov, 1, &mut total);
  searches.push(info);
  searches.push(size_sweep(ctx, mode, &mut total));
  searches.push(cascade_sweep(ctx, mode, &mut total));
  searches.push(aligned_descendant_sweep(ctx, mode, &mut total));
  searches.push(same_number_sweep(ctx, mode, &mut total));
  searches.push(consecutive_number_sweep(ctx, mode, &mut total));
  let mut extra = Map::new();
  extra.insert("searches".into(), json!(searches));
  let what = match mode {
    Mode::Moc => "R4 map equality + canonical packed form + depth_max = max(operands)",
    Mode::Bmoc => "R4 three-valued map equality + depth_max = max(operands)",
    Mode::Views => "well-formedness and agreement of all views of every operator result",
  };
  finish(
    ctx,
    total,
    json!({"oracle": what, "universes": searches.iter().map(|s| s["search"].clone()).collect::<Vec<_>>(),
      "first_layer": "not(s) for every s, all ORDERED pairs of the universe x {and, or, xor}",
      "further_layers": "new result states paired (both orders) with every known state, breadth-first with a visited set"}),
    "every state of the listed universes, every ordered pair of them, and the closure layers listed per search (a capped layer is reported in caps_hit)",
    vec!["three-valued range model R4 (bm.rs), independent decoding of the raw values".into(),
      "BMOC tree shapes outside the universes (more than two subdivided chains, other active base cells) are outside the bound".into()],
    extra,
  )
}

/// BMOCs produced by cone / polygon / ellipse queries at depths 5..8, as operands.
pub fn coverage_operands(mode: Mode, quick: bool) -> Vec<Bm> {
  use cdshealpix::nested;
  let mut v: Vec<Bm> = vec![];
  let depths: &[u8] = if quick { &[5, 7] } else { &[5, 6, 7, 8] };
  let centres = [(0.1234, 0.2345), (1.0, 1.2), (0.0, -1.1596584644725487), (5.5, -0.2), (3.1, 0.7297)];
  for &d in depths {
    for &(lon, lat) in &centres {
      for &r in &[0.02, 0.11, 0.4] {
        if let Ok(b) = guarded(move || nested::cone_coverage_approx(d, lon, lat, r)) {
          v.push(Bm::from_impl(&b));
        }
      }
      if let Ok(b) = guarded(move || nested::elliptical_cone_coverage(d, lon, lat, 0.3, 0.05, 0.7)) {
        v.push(Bm::from_impl(&b));
      }
      if lat.abs() < 1.0 {
        let poly = crate::c12::make_polygon(lon, lat, 5, 0.2, 1.0, 0.3, false);
        if let Ok(b) = guarded(move || nested::polygon_coverage(d, &poly, false)) {
          v.push(Bm::from_impl(&b));
        }
      }
    }
  }
  v.retain(|b| b.to_map().is_ok());
  if mode == Mode::Moc {
    // every covered cell becomes full; canonical (packed) form computed by the reference model
    v = v
      .into_iter()
      .map(|b| {
        let m = b.to_map().unwrap();
        let full = RangeMap { depth: m.depth, ranges: merge_full(&m.ranges) };
        Bm::new(b.depth_max, full.canonical_moc())
      })
      .collect();
  }
  v.sort();
  v.dedup();
  v
}

fn merge_full(ranges: &[(u64, u64, u8)]) -> Vec<(u64, u64, u8)> {
  let mut out: Vec<(u64, u64, u8)> = vec![];
  for &(s, e, _) in ranges {
    if let Some(l) = out.last_mut() {
      if l.1 == s {
        l.1 = e;
        continue;
      }
    }
    out.push((s, e, FULL));
  }
  out
}

pub fn replay(case: &Value, mode: Mode) -> Option<Viol> {
  let op = match case["op"].as_str().unwrap() {
    "not" => Op::Not,
    "and" => Op::And,
    "or" => Op::Or,
    _ => Op::Xor,
  };
  let (a, b) = if let Some(g) = case.get("generator") {
    let pairs = sweep_pairs_at(g["n"].as_u64().unwrap(), g["partial"].as_bool().unwrap(), g["dc"].as_u64().unwrap() as u8, g["df"].as_u64().unwrap() as u8, g["c0"].as_u64().unwrap());
    let (_, a, b) = pairs.into_iter().find(|p| Some(p.0) == g["shape"].as_str())?;
    let (a, b) = if g["swapped"].as_bool().unwrap_or(false) { (b, a) } else { (a, b) };
    (a, if op == Op::Not { None } else { Some(b) })
  } else {
    (Bm::from_json(&case["left"]), if case["right"].is_null() { None } else { Some(Bm::from_json(&case["right"])) })
  };
  let ai = a.to_impl();
  let am = a.to_map().ok()?;
  let bi = b.as_ref().map(|x| x.to_impl());
  let bmm = b.as_ref().and_then(|x| x.to_map().ok());
  let mut part = Part::new();
  let bb = match (&b, &bi, &bmm) {
    (Some(x), Some(y), Some(z)) => Some((x, y, z)),
    _ => None,
  };
  transition(mode, op, &a, &ai, &am, bb, &mut part).1
}
