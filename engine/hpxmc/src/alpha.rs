//! Shared finite alphabets (DESIGN.md section 3).

use crate::refm::*;

/// Longitude turns (multiples of 2 pi) applied to positions.
pub const TURNS_ALL: [f64; 7] = [0.0, -4.0, -3.0, -1.0, 1.0, 3.0, 4.0];

/// Is the plane lattice point (a, c) / 2^b inside the HEALPix domain (x in [0, 8))?
fn in_domain(a: i64, c: i64, s: i64) -> bool {
  // x = a / s, y = c / s
  let ay = c.abs();
  if ay <= s {
    return true;
  }
  if ay > 2 * s {
    return false;
  }
  let t = 2 * s - ay;
  let q = a.div_euclid(2 * s);
  let d = a - 2 * q * s - s;
  d.abs() <= t
}

/// P(b): all nodes (a / 2^b, c / 2^b) of the projection plane lying in the HEALPix domain,
/// x in [0, 8).  These are all vertices, edge mid-points and centres of every cell of depth < b,
/// all base-cell seams, the transition parallels, the meridians k pi/4 and the poles.
pub fn plane_nodes(b: u32) -> Vec<(f64, f64)> {
  let s = 1i64 << b;
  let mut v = Vec::new();
  for c in (-2 * s)..=(2 * s) {
    for a in 0..(8 * s) {
      if in_domain(a, c, s) {
        v.push((a as f64 / s as f64, c as f64 / s as f64));
      }
    }
  }
  v
}

/// Class coordinates B(n) = {0,1,2,n/2-1,n/2,n-3,n-2,n-1} (deduplicated, in range).
pub fn class_coords(depth: u8) -> Vec<u32> {
  let n = 1u64 << depth;
  let mut v: Vec<u64> = vec![0, 1, 2, (n / 2).saturating_sub(1), n / 2, n.saturating_sub(3), n.saturating_sub(2), n - 1];
  v.retain(|&x| x < n);
  v.sort();
  v.dedup();
  v.into_iter().map(|x| x as u32).collect()
}

/// K(d): class cells of a depth: 12 base cells x B x B (all cells when depth <= 2).
pub fn class_cells(depth: u8) -> Vec<u64> {
  let b = class_coords(depth);
  let mut v = Vec::with_capacity(12 * b.len() * b.len());
  for d0h in 0..12u8 {
    for &i in &b {
      for &j in &b {
        v.push(encode(depth, d0h, i, j));
      }
    }
  }
  // a deterministic spread of interior cells (multiplicative hashing): 32 per base cell
  if depth >= 3 {
    let n = 1u64 << depth;
    for d0h in 0..12u64 {
      for k in 1..=32u64 {
        let i = ((k + 97 * d0h).wrapping_mul(2_654_435_761) >> 3) % n;
        let j = ((k + 31 * d0h).wrapping_mul(40_503).wrapping_mul(2_246_822_519) >> 5) % n;
        v.push(encode(depth, d0h as u8, i as u32, j as u32));
      }
    }
  }
  v.sort();
  v.dedup();
  v
}

/// Carry-chain coordinates: 2^k - 1 and 2^k for every k < depth (every length of a run of ones in
/// the low bits, and the coordinate just after it): +-1 steps on them ripple through exactly k bits.
pub fn carry_coords(depth: u8) -> Vec<u32> {
  let n = 1u64 << depth;
  let mut v: Vec<u64> = vec![];
  for k in 1..depth as u32 {
    v.push((1u64 << k) - 1);
    v.push(1u64 << k);
    // a run of k ones above a zero bit, below a one: ...1 0 1..1
    if k + 2 <= depth as u32 {
      v.push((1u64 << (k + 1)) | ((1u64 << k) - 1));
    }
  }
  v.retain(|&x| x < n);
  v.sort();
  v.dedup();
  v.into_iter().map(|x| x as u32).collect()
}

/// Cells whose two coordinates are carry-chain coordinates.  `cross`: the full product in every
/// base cell (cheap checks); otherwise a thin set (diagonal, next pattern, the four borders) in one
/// base cell per region.
pub fn carry_cells(depth: u8, cross: bool) -> Vec<u64> {
  let p = carry_coords(depth);
  let n = 1u32 << depth;
  let mut v = vec![];
  if p.is_empty() {
    return v;
  }
  if cross {
    for d0h in 0..12u8 {
      for &i in &p {
        for &j in &p {
          v.push(encode(depth, d0h, i, j));
        }
      }
    }
  } else {
    for d0h in [1u8, 6, 11] {
      for (k, &a) in p.iter().enumerate() {
        let b = p[(k + 1) % p.len()];
        for (i, j) in [(a, a), (a, b), (b, a), (a, 0), (0, a), (a, n - 1), (n - 1, a)] {
          v.push(encode(depth, d0h, i, j));
        }
      }
    }
  }
  v.sort();
  v.dedup();
  v
}

/// Half-word sweeps: EVERY value of the low 16 bits of one coordinate (the other coordinate and the
/// upper bits being fixed, generic), and every value of the upper bits (low half-word fixed), for
/// i then for j, in an equatorial and in a polar base cell.  Table-driven or mask-driven code acts
/// on bytes / half-words: a wrong table entry, mask or carry test shows on one specific pattern
/// (e.g. 0xFEFF) that no structured class (all ones, powers of two, carry chains) contains.
pub fn halfword_sweep_cells(depth: u8) -> Vec<u64> {
  let n = 1u64 << depth;
  let mut v = vec![];
  if depth < 9 {
    return v;
  }
  let lo_bits = (depth as u32).min(16);
  for &(d0h, seed) in &[(5u8, 0x51234u64 * 7 + 3), (1, 0x2C9A5 * 5 + 2)] {
    // the fixed (generic, interior) value of the other coordinate, and of the upper bits
    let other = ((seed & (n - 1)) | 1).max(1).min(n - 2) as u32;
    let hi_fixed = if depth > 16 { (seed >> 3) & ((n >> 16) - 1) } else { 0 };
    for low in 0..(1u64 << lo_bits) {
      let c = (hi_fixed << 16) | low;
      if c < n {
        v.push(encode(depth, d0h, c as u32, other));
        v.push(encode(depth, d0h, other, c as u32));
      }
    }
    if depth > 16 {
      let low_fixed = 0xA7C3u64;
      for hi in 0..(n >> 16) {
        let c = ((hi << 16) | low_fixed) as u32;
        v.push(encode(depth, d0h, c, other));
        v.push(encode(depth, d0h, other, c));
      }
    }
  }
  v.extend(periodic_cells(depth));
  v.sort();
  v.dedup();
  v
}

/// Periodic coordinates: values whose bit pattern repeats with period 16 (EVERY 16-bit value v
/// written in both half-words, `v | v << 16`, cut to the depth), and with period 1, 2, 4, 8 (every
/// pattern), paired with the same / another periodic / a generic value of the other coordinate.
/// Code that splits a hash or a coordinate in words and treats "both words equal" (or an all-equal
/// byte pattern) specially is exercised by exactly these cells and by no other class.
pub fn periodic_pairs(depth: u8) -> Vec<(u32, u32)> {
  let mut v: Vec<(u32, u32)> = vec![];
  if depth < 9 {
    return v;
  }
  let n = 1u64 << depth;
  let mask = (n - 1) as u32;
  let rep16 = |w: u32| -> u32 { ((w & 0xFFFF) | ((w & 0xFFFF) << 16)) & mask };
  let mut push = |i: u32, j: u32| {
    v.push((i, j));
    v.push((j, i));
  };
  if depth > 16 {
    for w in 0..65536u32 {
      let i = rep16(w);
      push(i, i);
      push(i, rep16(3));
      push(i, rep16(w ^ 5));
      push(i, rep16(w.wrapping_mul(7).wrapping_add(1)));
      push(i, (0x2C9A5u32.wrapping_mul(5).wrapping_add(2) & mask) | 1);
    }
  }
  let mut pats: Vec<u32> = vec![];
  for p in [1u32, 2, 4, 8] {
    for pat in 0..(1u32 << p) {
      let mut x = 0u32;
      let mut k = 0;
      while k < 32 {
        x |= pat << k;
        k += p;
      }
      pats.push(x & mask);
    }
  }
  pats.sort();
  pats.dedup();
  for (a, &i) in pats.iter().enumerate() {
    for (b, &j) in pats.iter().enumerate() {
      if a == b || (a + b) % 7 == 0 || j == (!i & mask) {
        push(i, j);
      }
    }
    push(i, (0x51234u32.wrapping_mul(7).wrapping_add(3) & mask) | 1);
  }
  v.sort();
  v.dedup();
  v
}

/// Byte-permutation partners: for a few hundred generic coordinates i (all four bytes distinct and
/// non-zero where the depth allows) the coordinate j made of the SAME bytes in each of the 24
/// orders, and of the same nibbles rotated: a shortcut comparing a byte (half-word) of one
/// coordinate with another byte (half-word) of the other one is exercised by these pairs only.
pub fn byte_permutation_pairs(depth: u8) -> Vec<(u32, u32)> {
  let mut v: Vec<(u32, u32)> = vec![];
  if depth < 17 {
    return v;
  }
  let mask = ((1u64 << depth) - 1) as u32;
  let perms: Vec<[usize; 4]> = {
    let mut p = vec![];
    for a in 0..4 {
      for b in 0..4 {
        for c in 0..4 {
          for d in 0..4 {
            if a != b && a != c && a != d && b != c && b != d && c != d {
              p.push([a, b, c, d]);
            }
          }
        }
      }
    }
    p
  };
  for k in 0..256u32 {
    // generic bytes; the top byte is kept below 2^(depth - 24) so that it survives the mask
    let x = k.wrapping_mul(2_654_435_761).wrapping_add(0x9E37_79B9);
    let top_bits = depth.saturating_sub(24).min(8) as u32;
    let b = [(x & 0xFF).max(1), ((x >> 8) & 0xFF).max(2), ((x >> 16) & 0xFF).max(3), if top_bits == 0 { 0 } else { ((x >> 24) & ((1 << top_bits) - 1)).max(1) }];
    // every byte small enough to be a top byte too (so that each permutation stays in range)
    let small = |t: u32| if top_bits == 0 { t } else { (t & ((1 << top_bits) - 1)).max(1) };
    for variant in 0..2 {
      let bb: [u32; 4] = if variant == 0 { b } else { [small(b[0]), small(b[1]), small(b[2]), b[3]] };
      let i = (bb[0] | bb[1] << 8 | bb[2] << 16 | bb[3] << 24) & mask;
      for p in &perms {
        let j = (bb[p[0]] | bb[p[1]] << 8 | bb[p[2]] << 16 | bb[p[3]] << 24) & mask;
        v.push((i, j));
      }
      v.push((i, i.rotate_left(4) & mask));
      v.push((i, i.rotate_right(4) & mask));
      v.push((i, (i >> 16 | i << 16) & mask));
    }
  }
  v.sort();
  v.dedup();
  v
}

/// The periodic pairs as cells of an equatorial and of a polar base cell.
pub fn periodic_cells(depth: u8) -> Vec<u64> {
  let mut v = vec![];
  for (i, j) in periodic_pairs(depth).into_iter().chain(byte_permutation_pairs(depth).into_iter()) {
    v.push(encode(depth, 5, i, j));
    v.push(encode(depth, 1, i, j));
  }
  v.sort();
  v.dedup();
  v
}

/// N points spread over the whole sphere (Fibonacci lattice): generic positions, away from
/// every border class.
pub fn fibonacci_points(n: usize) -> Vec<(f64, f64)> {
  let golden = PI * (3.0 - 5.0f64.sqrt());
  (0..n)
    .map(|k| {
      let z = 1.0 - (2.0 * k as f64 + 1.0) / n as f64;
      let lon = (golden * k as f64).rem_euclid(TWO_PI);
      (lon, z.max(-1.0).min(1.0).asin())
    })
    .collect()
}

/// All cells of a depth.
pub fn all_cells(depth: u8) -> std::ops::Range<u64> {
  0..n_hash(depth)
}

/// The 9 characteristic plane points of a cell: centre, 4 vertices, 4 edge mid-points (x in [0,8)).
pub fn cell_points_plane(depth: u8, h: u64) -> [(f64, f64); 9] {
  let n = nside(depth) as f64;
  let (cx, cy) = center_lattice(depth, h);
  let mut out = [(0.0, 0.0); 9];
  let offs: [(f64, f64); 9] = [
    (0.0, 0.0),
    (0.0, -1.0),
    (1.0, 0.0),
    (0.0, 1.0),
    (-1.0, 0.0),
    (0.5, -0.5),
    (0.5, 0.5),
    (-0.5, 0.5),
    (-0.5, -0.5),
  ];
  for (k, (dx, dy)) in offs.iter().enumerate() {
    let x = (cx as f64 + dx) / n;
    let y = (cy as f64 + dy) / n;
    out[k] = (x.rem_euclid(8.0), y);
  }
  out
}

/// DeepBorder(d): plane points of the class cells of depth d.
pub fn deep_border_nodes(depth: u8) -> Vec<(f64, f64)> {
  let mut v = Vec::new();
  for h in class_cells(depth) {
    for p in cell_points_plane(depth, h).iter() {
      v.push(*p);
    }
  }
  v
}

/// The (2k+1)^2 ulp-nudges of a position.
pub fn nudged(lon: f64, lat: f64, k: i32) -> Vec<(f64, f64)> {
  let mut v = Vec::with_capacity(((2 * k + 1) * (2 * k + 1)) as usize);
  for a in -k..=k {
    for b in -k..=k {
      v.push((nudge(lon, a), nudge(lat, b)));
    }
  }
  v
}

/// Exponent sweep: positions at +-10^-k and +-2^-k (every k) from the critical latitudes (equator,
/// transition latitudes, square-cell latitudes, poles) and from the critical meridians (k pi/4):
/// a tolerance, snap distance or series cut-off hidden in the code acts at one specific magnitude,
/// between the 1-ulp neighbours and the cell-sized neighbours the other alphabets provide.
pub fn exponent_sweep_positions() -> Vec<(f64, f64)> {
  let tl = transition_lat();
  let sq = 0.39934019947897773;
  let mut offs: Vec<f64> = vec![];
  for k in 1..=17 {
    offs.push(10f64.powi(-k));
    offs.push(3.3 * 10f64.powi(-k));
  }
  for k in (4..=60).step_by(4) {
    offs.push(2f64.powi(-k));
  }
  let mut v = vec![];
  for &lc in &[0.0, tl, -tl, sq, -sq, HALF_PI, -HALF_PI] {
    for &o in &offs {
      for s in [-1.0, 1.0] {
        let lat = lc + s * o;
        if lat.abs() > HALF_PI {
          continue;
        }
        for &lon in &[0.31, PI / 4.0, 1.0, 5.5, PI / 2.0] {
          v.push((lon, lat));
        }
      }
    }
  }
  for q in 0..=8 {
    let lc = q as f64 * PI / 4.0;
    for &o in &offs {
      for s in [-1.0, 1.0] {
        for &lat in &[0.2, tl, 1.0, -1.3, 0.0] {
          v.push((lc + s * o, lat));
        }
      }
    }
  }
  v
}


/// "Round" user values: every integer number of degrees of latitude, longitudes every 15 degrees
/// (converted with `to_radians`, as a user would): 45 deg is bit for bit pi/4, 30 deg is asin(1/2) ...
pub fn degree_positions() -> Vec<(f64, f64)> {
  let mut v = vec![];
  for lat in -90..=90 {
    for lon in (-30..=375).step_by(15) {
      v.push(((lon as f64 + if lon % 2 == 0 { 0.0 } else { 0.5 }).to_radians(), (lat as f64).to_radians().max(-HALF_PI).min(HALF_PI)));
    }
  }
  v
}

/// Numeric literals of the CURRENT sources of the subject (/repo/src/**/*.rs, read at run time):
/// (integers, floats).  A constant the code compares its input with is the one input value worth
/// trying; the alphabets built from them follow the code as it changes.
pub fn source_literals() -> (Vec<u64>, Vec<f64>) {
  fn walk(dir: &std::path::Path, out: &mut Vec<std::path::PathBuf>) {
    if let Ok(rd) = std::fs::read_dir(dir) {
      for e in rd.flatten() {
        let p = e.path();
        if p.is_dir() {
          walk(&p, out);
        } else if p.extension().map(|x| x == "rs").unwrap_or(false) {
          out.push(p);
        }
      }
    }
  }
  let mut files = vec![];
  walk(std::path::Path::new("/repo/src"), &mut files);
  files.sort();
  let mut ints: Vec<u64> = vec![];
  let mut floats: Vec<f64> = vec![];
  for f in files {
    let text = match std::fs::read_to_string(&f) {
      Ok(t) => t,
      Err(_) => continue,
    };
    let b = text.as_bytes();
    let mut i = 0;
    while i < b.len() {
      let c = b[i];
      let prev_ident = i > 0 && (b[i - 1].is_ascii_alphanumeric() || b[i - 1] == b'_' || b[i - 1] == b'.');
      if c.is_ascii_digit() && !prev_ident {
        let start = i;
        if c == b'0' && i + 1 < b.len() && (b[i + 1] == b'x' || b[i + 1] == b'X') {
          i += 2;
          let mut v: u128 = 0;
          let mut nd = 0;
          while i < b.len() && (b[i].is_ascii_hexdigit() || b[i] == b'_') {
            if b[i] != b'_' {
              v = (v << 4) | (b[i] as char).to_digit(16).unwrap() as u128;
              nd += 1;
            }
            i += 1;
          }
          if nd > 0 && nd <= 16 {
            ints.push(v as u64);
          }
        } else {
          while i < b.len() && (b[i].is_ascii_digit() || b[i] == b'_') {
            i += 1;
          }
          let mut is_float = false;
          if i + 1 < b.len() && b[i] == b'.' && b[i + 1].is_ascii_digit() {
            is_float = true;
            i += 1;
            while i < b.len() && (b[i].is_ascii_digit() || b[i] == b'_') {
              i += 1;
            }
          }
          if i < b.len() && (b[i] == b'e' || b[i] == b'E') && i + 1 < b.len() && (b[i + 1].is_ascii_digit() || ((b[i + 1] == b'-' || b[i + 1] == b'+') && i + 2 < b.len() && b[i + 2].is_ascii_digit())) {
            is_float = true;
            i += 2;
            while i < b.len() && b[i].is_ascii_digit() {
              i += 1;
            }
          }
          let tok: String = text[start..i].chars().filter(|&ch| ch != '_').collect();
          if is_float {
            if let Ok(x) = tok.parse::<f64>() {
              if x.is_finite() {
                floats.push(x);
              }
            }
          } else if let Ok(x) = tok.parse::<u64>() {
            ints.push(x);
          }
        }
        // skip a type suffix
        while i < b.len() && (b[i].is_ascii_alphanumeric() || b[i] == b'_') {
          i += 1;
        }
      } else {
        i += 1;
      }
    }
  }
  ints.sort();
  ints.dedup();
  floats.sort_by(|a, b| a.partial_cmp(b).unwrap());
  floats.dedup();
  (ints, floats)
}

/// Coordinates derived from the integer literals of the sources, for a grid of side n = 2^depth:
/// the literal itself and its shifts by a byte or two, kept when they are a proper "mid-word"
/// value (>= 256: smaller ones are covered by the exhaustive low-half-word sweeps).
pub fn literal_coords(ints: &[u64], depth: u8) -> Vec<u32> {
  let n = 1u64 << depth;
  let mut v: Vec<u64> = vec![];
  for &l in ints {
    for c in [l, l >> 8, l >> 16, l << 8, l >> 32] {
      if c >= 256 && c < n {
        v.push(c);
      }
    }
  }
  v.sort();
  v.dedup();
  // the lookup tables of the z-order curves give thousands of values: thin them deterministically
  if v.len() > 600 {
    let step = (v.len() + 599) / 600;
    let kept: Vec<u64> = v.iter().enumerate().filter(|(k, x)| k % step == 0 || x.count_ones() > 4 && x.trailing_zeros() >= 8).map(|(_, x)| *x).collect();
    v = kept;
  }
  v.into_iter().map(|x| x as u32).collect()
}

/// Cells whose two coordinates are mid-word integer literals of the current sources (all ordered
/// pairs of at most `keep` values), in an equatorial and a polar base cell.
pub fn literal_cells(ints: &[u64], depth: u8, keep: usize) -> Vec<u64> {
  let mut coords = literal_coords(ints, depth);
  coords.sort_by_key(|c| (c.trailing_zeros() < 8, *c));
  coords.truncate(keep);
  let mut v = vec![];
  for &i in &coords {
    for &j in &coords {
      v.push(encode(depth, 5, i, j));
      v.push(encode(depth, 1, i, j));
    }
  }
  v.sort();
  v.dedup();
  v
}

/// A few generic off-lattice points (lon, lat).
pub fn generic_points() -> Vec<(f64, f64)> {
  vec![
    (0.1234, 0.2345),
    (1.0, 1.2),
    (2.7, -0.3),
    (3.3, 0.75),
    (4.4, -0.74),
    (5.5, -1.4),
    (6.1, 1.5),
    (0.7853, 0.7297),
    (5.49, 0.0001),
    (2.3561, -1.0),
  ]
}

/// Cell numbers >= 12 * 4^depth of every magnitude: just above the range, with a base-cell field
/// of 12..15, with a VALID base cell hidden behind higher bits (the base-cell field wraps modulo
/// 16 / 256 / 65536 in careless checks), and the extremes.
pub fn out_of_range_hashes(depth: u8) -> Vec<u64> {
  let nh = n_hash(depth);
  let sh = 2 * depth as u32;
  let mut v: Vec<u64> = vec![nh, nh + 1, nh + 5, 1u64 << 63, u64::MAX, u64::MAX - nh, u64::MAX / 3];
  for base in [12u64, 13, 15, 16, 16 + 3, 32 + 11, 256, 256 + 3, 256 + 11, 512 + 7, 65536 + 5, (1 << 32) + 2] {
    if base.leading_zeros() > sh {
      let b = base << sh;
      v.push(b);
      v.push(b | 1);
      if depth > 1 {
        v.push(b | 12); // i = 2, j = 2: an interior cell of the (hidden) base cell
        v.push(b | (nh / 24));
      }
    }
  }
  v.retain(|&h| h >= nh);
  v.sort();
  v.dedup();
  v
}
