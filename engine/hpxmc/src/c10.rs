//! C10: NESTED <-> RING conversion is a bijection realising the RING ordering -- shape S.

use crate::alpha::*;
use crate::refm::*;
use crate::report::*;
use cdshealpix::nested;
use serde_json::{json, Map, Value};

fn case_r(depth: u8, r: u64) -> Value {
  json!({"kind": "ring", "depth": depth, "ring_index": r.to_string()})
}
fn case_h(depth: u8, h: u64) -> Value {
  json!({"kind": "nested", "depth": depth, "hash": h.to_string()})
}

/// from_ring direction on one RING index.
pub fn check_ring_index(depth: u8, r: u64, geometry: bool, part: &mut Part) -> Option<Viol> {
  journal("Layer::from_ring", || case_r(depth, r));
  let layer = nested::get_or_create(depth);
  let nh = n_hash(depth);
  let n = 1u64 << depth;
  let mk = |api: &str, kind: &str, expected: String, actual: String| Some(Viol { api: api.into(), kind: kind.into(), case: case_r(depth, r), expected, actual });
  let h = match guarded(|| layer.from_ring(r)) {
    Ok(h) => h,
    Err(m) => return mk("Layer::from_ring", "panic-in-domain", "a NESTED number".into(), format!("panic: {}", m)),
  };
  part.outcome(hash64(&[depth as u64, h]));
  if h >= nh {
    return mk("Layer::from_ring", "out-of-range", format!("< {}", nh), format!("{}", h));
  }
  // the NESTED cell has the centre the RING order prescribes (exact integers)
  let (ex, ey) = ring_center(n, r);
  let (cx, cy) = center_lattice(depth, h);
  part.validated += 1;
  if (cx.rem_euclid(8 * n as i64), cy) != (ex, ey) {
    return mk("Layer::from_ring", "wrong-cell", format!("the cell centred at lattice point ({}, {}) (rank {} in the order latitude desc, longitude asc)", ex, ey, r), format!("cell {} centred at ({}, {})", h, cx.rem_euclid(8 * n as i64), cy));
  }
  match guarded(|| layer.to_ring(h)) {
    Ok(r2) if r2 == r => {}
    other => return mk("Layer::to_ring(from_ring)", "not-inverse", format!("{}", r), format!("{:?}", other)),
  }
  if geometry {
    // RING-scheme centre = NESTED centre
    let nside = n as u32;
    let a = guarded(move || cdshealpix::ring::center_of_projected_cell(nside, r));
    let b = guarded(|| layer.center_of_projected_cell(h));
    match (a, b) {
      (Ok((x1, y1)), Ok((x2, y2))) => {
        part.validated += 1;
        let d = wrap8(x1 - x2).abs().max((y1 - y2).abs());
        let dr = wrap8(x1 - ex as f64 / n as f64).abs().max((y1 - ey as f64 / n as f64).abs());
        if !(d <= 4e-15 && dr <= 4e-15) {
          return mk("ring::center_of_projected_cell", "centres-differ", format!("({:e}, {:e}) (NESTED centre of from_ring(r); lattice ({}, {})/{})", x2, y2, ex, ey, n), format!("({:e}, {:e})", x1, y1));
        }
      }
      (a, b) => return mk("ring::center_of_projected_cell", "panic-in-domain", "centres".into(), format!("{:?} {:?}", a.err(), b.err())),
    }
  }
  None
}

/// to_ring direction on one NESTED cell.
pub fn check_nested_cell(depth: u8, h: u64, part: &mut Part) -> Option<Viol> {
  journal("Layer::to_ring", || case_h(depth, h));
  let layer = nested::get_or_create(depth);
  let n = 1u64 << depth;
  let mk = |api: &str, kind: &str, expected: String, actual: String| Some(Viol { api: api.into(), kind: kind.into(), case: case_h(depth, h), expected, actual });
  let r = match guarded(|| layer.to_ring(h)) {
    Ok(r) => r,
    Err(m) => return mk("Layer::to_ring", "panic-in-domain", "a RING number".into(), format!("panic: {}", m)),
  };
  let (cx, cy) = center_lattice(depth, h);
  let exp = ring_index(n, cx, cy).expect("oracle: NESTED centre is a RING centre");
  part.validated += 1;
  if r != exp {
    return mk("Layer::to_ring", "wrong-rank", format!("{} (rank of the centre ({}, {}) in the RING order)", exp, cx, cy), format!("{}", r));
  }
  match guarded(|| layer.from_ring(r)) {
    Ok(h2) if h2 == h => None,
    other => mk("Layer::from_ring(to_ring)", "not-inverse", format!("{}", h), format!("{:?}", other)),
  }
}

/// RING indices at the boundaries of ring j (1..=4n-1): first/last cells and quarter boundaries, +-1.
fn ring_boundary_indices(n: u64, j: u64) -> Vec<u64> {
  let total = 12 * n * n;
  let cells = if j <= n { 4 * j } else if j < 3 * n { 4 * n } else { 4 * (4 * n - j) };
  // first index of ring j
  let (x0, y0) = {
    let y = 2 * n as i64 - j as i64;
    let jp = if j <= n { j } else if j < 3 * n { 0 } else { 4 * n - j } as i64;
    let x = if jp > 0 { n as i64 - jp + 1 } else { (y + n as i64 + 1).rem_euclid(2) };
    (x, y)
  };
  let first = ring_index(n, x0, y0).expect("oracle: ring start");
  let mut v = vec![];
  let q = cells / 4;
  // generic indices inside the ring
  for f in [3u64, 7, 11] {
    let idx = first + (cells * f) / 13;
    if idx < total {
      v.push(idx);
    }
  }
  for k in 0..=4u64 {
    for d in [-2i64, -1, 0, 1] {
      let idx = (first + k * q) as i64 + d;
      if idx >= 0 && (idx as u64) < total {
        v.push(idx as u64);
      }
    }
  }
  v
}

fn class_rings(n: u64) -> Vec<u64> {
  let mut v: Vec<u64> = vec![1, 2, 3, 4, 5];
  let mut p = 1u64;
  while p <= 4 * n {
    for d in [-1i64, 0, 1] {
      v.push((p as i64 + d).max(1) as u64);
    }
    p <<= 1;
  }
  for base in [n / 3, n / 2, n - 2, n - 1, n, n + 1, n + 2, 2 * n - 1, 2 * n, 2 * n + 1, 3 * n - 2, 3 * n - 1, 3 * n, 3 * n + 1, 3 * n + 2, 7 * n / 2, 4 * n - 3, 4 * n - 2, 4 * n - 1] {
    v.push(base.max(1));
  }
  // a spread of odd-ish rings (the float sqrt rounds differently from ring to ring)
  for k in 1..400u64 {
    v.push((k * 2_654_435_761u64) % n + 1);
    v.push(4 * n - 1 - (k * 40_503u64) % n);
  }
  v.retain(|&j| j >= 1 && j <= 4 * n - 1);
  v.sort();
  v.dedup();
  v
}

pub fn run(ctx: &Ctx) -> i32 {
  let quick = ctx.quick();
  let d_exh: u8 = if quick { 11 } else { 13 };
  enum Job {
    All(u8, u64, u64),
    Classes(u8),
    AllPolarRings(u8, u64, u64),
    Nested(u8),
  }
  let mut jobs = vec![];
  for d in 0..=d_exh {
    let nh = n_hash(d);
    let step = 1u64 << 16;
    let mut lo = 0;
    while lo < nh {
      jobs.push(Job::All(d, lo, (lo + step).min(nh)));
      lo += step;
    }
  }
  for d in (d_exh + 1)..=29 {
    jobs.push(Job::Classes(d));
    jobs.push(Job::Nested(d));
  }
  {
    // every polar ring boundary (+ a generic index of the ring): mid depths in the quick tier, every
    // depth beyond the exhaustive ones in the thorough tier (1 + 2 r exceeds 2^53 from depth 26 on)
    let ring_depths: Vec<u8> = if quick { (d_exh + 1..=18).collect() } else { (d_exh + 1..=29).collect() };
    for d in ring_depths {
      let n = 1u64 << d;
      let step = 1u64 << 20;
      let mut lo = 1;
      while lo <= n {
        jobs.push(Job::AllPolarRings(d, lo, (lo + step).min(n + 1)));
        lo += step;
      }
    }
  }
  let total = par_jobs(jobs.len(), |j| {
    let mut part = Part::new();
    if ctx.over_budget() {
      part.caps.push(format!("wall budget {}s reached in C10 enumeration", ctx.budget_s));
      return part;
    }
    match &jobs[j] {
      Job::All(d, lo, hi) => {
        for r in *lo..*hi {
          part.stratum("all-indices", 1, 4);
          if let Some(v) = check_ring_index(*d, r, *d <= 6, &mut part) {
            part.viol(v);
          }
          if let Some(v) = check_nested_cell(*d, r, &mut part) {
            part.viol(v);
          }
        }
      }
      Job::Classes(d) => {
        let n = 1u64 << *d;
        for jr in class_rings(n) {
          for r in ring_boundary_indices(n, jr) {
            part.stratum("ring-boundary-classes", 1, 3);
            if let Some(v) = check_ring_index(*d, r, true, &mut part) {
              part.viol(v);
            }
          }
        }
        if *d == 29 {
          part.sample(json!({"depth": d, "ring_index": (2 * n * (n + 1) - 1).to_string(), "from_ring": format!("{:?}", guarded(|| nested::get_or_create(*d).from_ring(2 * n * (n + 1) - 1)))}));
        }
      }
      Job::AllPolarRings(d, lo, hi) => {
        let n = 1u64 << *d;
        for jr in *lo..*hi {
          // last cell of the ring and first of the next, north and south
          let last = 2 * jr * (jr + 1) - 1;
          let mid = 2 * jr * (jr - 1) + (4 * jr * 5) / 13; // a generic index of ring jr
          for r in [last, last + 1, 12 * n * n - 1 - last, 12 * n * n - 2 - last, mid, 12 * n * n - 1 - mid] {
            if r < 12 * n * n {
              part.stratum("all-polar-ring-boundaries", 1, 2);
              if let Some(v) = check_ring_index(*d, r, false, &mut part) {
                part.viol(v);
              }
            }
          }
        }
      }
      Job::Nested(d) => {
        let mut hw: Vec<u64> = if [17u8, 20, 24, 29].contains(d) || (!quick && *d >= 14) { halfword_sweep_cells(*d) } else { vec![] };
        if [18u8, 22, 29].contains(d) {
          hw.extend(literal_cells(&source_literals().0, *d, if quick { 150 } else { 400 }));
        }
        for h in class_cells(*d).into_iter().chain(carry_cells(*d, true).into_iter()).chain(hw.into_iter()) {
          part.stratum("nested-class-cells", 1, 2);
          if let Some(v) = check_nested_cell(*d, h, &mut part) {
            part.viol(v);
          }
        }
      }
    }
    part
  });
  finish(
    ctx,
    total,
    json!({"exhaustive_depths": format!("0..={} (every RING index and every NESTED cell)", d_exh),
      "deeper": "for every depth to 29: ~900 rings (first 5, powers of two +-1, cap/transition/equator classes, 800 spread rings) x first/last/quarter-boundary indices +-2; border-class NESTED cells",
      "all_polar_ring_boundaries": if quick { json!("every polar ring (north and south) of depths 12..=18: last index of the ring, first of the next, one generic index") } else { json!("every polar ring (north and south) of every depth 14..=29: last index of the ring, first of the next, one generic index") }}),
    "the complete index sets of the exhaustive depths (=> bijection outright there); the listed boundary classes deeper",
    vec!["exact integer RING model R3 (u128 arithmetic, exact integer square root), self-checked against the lattice model".into()],
    Map::new(),
  )
}

pub fn replay(case: &Value) -> Option<Viol> {
  let mut part = Part::new();
  let depth = case["depth"].as_u64().unwrap() as u8;
  if case["kind"] == "ring" {
    check_ring_index(depth, u64_from_json(&case["ring_index"]), true, &mut part)
  } else {
    check_nested_cell(depth, u64_from_json(&case["hash"]), &mut part)
  }
}
