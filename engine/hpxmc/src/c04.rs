//! C04: neighbours = geometric adjacency, correctly labelled -- shape S.

use crate::alpha::*;
use crate::refm::*;
use crate::report::*;
use cdshealpix::compass_point::MainWind;
use cdshealpix::nested;
use serde_json::{json, Map, Value};

fn case_json(depth: u8, h: u64) -> Value {
  json!({"depth": depth, "hash": h.to_string()})
}

fn fmt_nb(v: &[(usize, u64)]) -> String {
  v.iter().map(|(d, h)| format!("{}:{}", DIR_NAMES[*d], h)).collect::<Vec<_>>().join(" ")
}

fn impl_neighbours(depth: u8, h: u64, center: bool) -> Result<Vec<(usize, u64)>, String> {
  guarded(move || {
    let m = nested::neighbours(depth, h, center);
    let mut v = vec![];
    for idx in 0..9u8 {
      if let Some(&c) = m.get(MainWind::from_index(idx)) {
        v.push((idx as usize, c));
      }
    }
    v
  })
}

/// Full check of one cell.
pub fn check_cell(depth: u8, h: u64, symmetry: bool, part: &mut Part) -> Option<Viol> {
  journal("nested::neighbours", || case_json(depth, h));
  let expected = ref_neighbours(depth, h);
  let got = match impl_neighbours(depth, h, false) {
    Ok(v) => v,
    Err(msg) => {
      return Some(Viol {
        api: "nested::neighbours".into(),
        kind: "panic-in-domain".into(),
        case: case_json(depth, h),
        expected: fmt_nb(&expected),
        actual: format!("panic: {}", msg),
      })
    }
  };
  part.validated += 1;
  part.outcome(hash64(&got.iter().map(|&(d, c)| (d as u64) << 60 ^ c ^ (depth as u64) << 52).collect::<Vec<_>>()));
  if got != expected {
    return Some(Viol {
      api: "nested::neighbours".into(),
      kind: "wrong-neighbours".into(),
      case: case_json(depth, h),
      expected: fmt_nb(&expected),
      actual: fmt_nb(&got),
    });
  }
  let n_expected = expected.len();
  if !(n_expected == 8 || n_expected == 7 || (depth == 0 && n_expected == 6)) {
    panic!("oracle: bad neighbour count");
  }
  // include_center = true adds exactly C -> h
  match impl_neighbours(depth, h, true) {
    Ok(v) => {
      let mut exp2 = expected.clone();
      exp2.push((4, h));
      exp2.sort();
      if v != exp2 {
        return Some(Viol {
          api: "nested::neighbours(include_center)".into(),
          kind: "wrong-neighbours".into(),
          case: case_json(depth, h),
          expected: fmt_nb(&exp2),
          actual: fmt_nb(&v),
        });
      }
    }
    Err(msg) => {
      return Some(Viol {
        api: "nested::neighbours(include_center)".into(),
        kind: "panic-in-domain".into(),
        case: case_json(depth, h),
        expected: "map".into(),
        actual: format!("panic: {}", msg),
      })
    }
  }
  // neighbour(h, dir) agrees with neighbours(h)
  for idx in 0..9u8 {
    if idx == 4 {
      continue;
    }
    let r = guarded(move || nested::get_or_create(depth).neighbour(h, MainWind::from_index(idx)));
    let exp = expected.iter().find(|e| e.0 == idx as usize).map(|e| e.1);
    match r {
      Ok(g) if g == exp => {}
      other => {
        return Some(Viol {
          api: "Layer::neighbour".into(),
          kind: "neighbour-disagrees".into(),
          case: json!({"depth": depth, "hash": h.to_string(), "dir": DIR_NAMES[idx as usize]}),
          expected: format!("{:?}", exp),
          actual: format!("{:?}", other),
        })
      }
    }
  }
  // symmetry, through the implementation itself
  if symmetry {
    for &(_, c) in &got {
      match impl_neighbours(depth, c, false) {
        Ok(back) if back.iter().any(|&(_, b)| b == h) => {}
        other => {
          return Some(Viol {
            api: "nested::neighbours".into(),
            kind: "asymmetric".into(),
            case: json!({"depth": depth, "hash": h.to_string(), "neighbour": c.to_string()}),
            expected: format!("{} among the neighbours of {}", h, c),
            actual: format!("{:?}", other.map(|v| fmt_nb(&v))),
          })
        }
      }
    }
  }
  None
}

fn check_out_of_range(depth: u8, part: &mut Part) {
  let nh = n_hash(depth);
  let bad = out_of_range_hashes(depth);
  for h in bad {
    if h < nh {
      continue;
    }
    part.stratum("out-of-range", 1, 13);
    // every value of the other argument (with / without the centre), free function and method
    for center in [false, true] {
      if let Ok(v) = impl_neighbours(depth, h, center) {
        part.viol(Viol {
          api: "nested::neighbours".into(),
          kind: "out-of-range-accepted".into(),
          case: case_json(depth, h),
          expected: "panic (hash >= 12*4^depth)".into(),
          actual: fmt_nb(&v),
        });
      }
      if guarded(move || nested::get_or_create(depth).neighbours(h, center).entries_vec().len()).is_ok() {
        part.viol(Viol {
          api: "Layer::neighbours".into(),
          kind: "out-of-range-accepted".into(),
          case: case_json(depth, h),
          expected: "panic (hash >= 12*4^depth)".into(),
          actual: "returned a map".into(),
        });
      }
    }
    for idx in 0..9u8 {
      let r = guarded(move || nested::get_or_create(depth).neighbour(h, MainWind::from_index(idx)));
      if let Ok(v) = r {
        part.viol(Viol {
          api: "Layer::neighbour".into(),
          kind: "out-of-range-accepted".into(),
          case: json!({"depth": depth, "hash": h.to_string(), "dir": DIR_NAMES[idx as usize]}),
          expected: "panic (hash >= 12*4^depth)".into(),
          actual: format!("{:?}", v),
        });
      }
    }
  }
}

pub fn run(ctx: &Ctx) -> i32 {
  let d_exh: u8 = if ctx.quick() { 11 } else { 13 };
  // jobs: (depth, lo, hi) ranges for exhaustive depths, then one job per deep depth
  let mut jobs: Vec<(u8, u64, u64, bool)> = vec![];
  for d in 0..=d_exh {
    let nh = n_hash(d);
    let step = 1u64 << 15;
    let mut lo = 0;
    while lo < nh {
      jobs.push((d, lo, (lo + step).min(nh), false));
      lo += step;
    }
  }
  for d in (d_exh + 1)..=29 {
    jobs.push((d, 0, 0, true));
  }
  let mut total = par_jobs(jobs.len(), |j| {
    let (d, lo, hi, deep) = jobs[j];
    let mut part = Part::new();
    if ctx.over_budget() {
      part.caps.push(format!("wall budget {}s reached in C04 enumeration", ctx.budget_s));
      return part;
    }
    if !deep {
      for h in lo..hi {
        part.stratum("all-cells", 1, 11);
        if let Some(v) = check_cell(d, h, d <= 5, &mut part) {
          part.viol(v);
        }
      }
      if lo == 0 {
        part.sample(json!({"depth": d, "hash": 0, "neighbours": fmt_nb(&impl_neighbours(d, 0, false).unwrap_or_default())}));
      }
    } else {
      let mut cells = class_cells(d);
      cells.extend(carry_cells(d, true));
      let mut extra = vec![];
      for &h in &cells {
        for (_, c) in ref_neighbours(d, h) {
          extra.push(c);
        }
      }
      cells.extend(extra);
      // half-word sweeps (every value of the low / high 16 bits of one coordinate)
      if (ctx.quick() && [17u8, 20, 29].contains(&d)) || (!ctx.quick() && d >= 14) {
        cells.extend(halfword_sweep_cells(d));
      }
      // cells whose coordinates are integer literals of the current sources
      if [18u8, 22, 29].contains(&d) {
        cells.extend(literal_cells(&source_literals().0, d, if ctx.quick() { 150 } else { 400 }));
      }
      cells.sort();
      cells.dedup();
      for &h in &cells {
        part.stratum("border-classes", 1, 19);
        if let Some(v) = check_cell(d, h, true, &mut part) {
          part.viol(v);
        }
      }
      if d == 29 {
        let h = cells[cells.len() / 2];
        part.sample(json!({"depth": d, "hash": h.to_string(), "neighbours": fmt_nb(&impl_neighbours(d, h, false).unwrap_or_default())}));
      }
    }
    part
  });
  for d in 0..30u8 {
    check_out_of_range(d, &mut total);
  }
  finish(
    ctx,
    total,
    json!({"exhaustive_depths": format!("0..={}", d_exh), "class_depths": format!("{}..=29", d_exh + 1),
      "class_cells": "12 base cells x {0,1,2,n/2-1,n/2,n-3,n-2,n-1}^2 and all their neighbours",
      "directions": 9, "out_of_range_hashes_per_depth": 7}),
    "all cells of the exhaustive depths; all border/corner class cells (and their neighbours) of the deeper depths; every direction; out-of-range hashes at every depth",
    vec![
      "lattice adjacency model R2 (cells sharing a canonical vertex, exact seam identification), self-checked for symmetry and the 8/7/6 neighbour counts at depths 0..3".into(),
      "depth-uniformity of the integer formulas for interior cells of depths above the exhaustive ones".into(),
    ],
    Map::new(),
  )
}

pub fn replay(case: &Value, api: &str) -> Option<Viol> {
  let depth = case["depth"].as_u64().unwrap() as u8;
  let h = u64_from_json(&case["hash"]);
  let mut part = Part::new();
  if h >= n_hash(depth) {
    let mut p = Part::new();
    check_out_of_range(depth, &mut p);
    let _ = api;
    return p.viols.into_iter().next();
  }
  check_cell(depth, h, true, &mut part)
}
