//! hpxmc: bounded-exhaustive / explicit-state checkers for the cdshealpix properties.
//! Usage: hpxmc <ID> --tier quick|thorough [--config NAME] [--verif-dir DIR] [--replay FILE]

mod alpha;
mod bm;
mod c01;
mod c03;
mod c04;
mod c07;
mod c09;
mod c10;
mod c11;
mod c12;
mod c13;
mod c14;
mod c15;
mod c16;
mod c17;
mod cone;
mod c18;
mod c19;
mod refm;
mod report;
mod seq;

use report::*;
use serde_json::Value;
use std::time::Instant;

fn main() {
  let args: Vec<String> = std::env::args().collect();
  if args.len() < 2 {
    eprintln!("usage: hpxmc <ID> --tier quick|thorough [--config NAME] [--verif-dir DIR] [--replay FILE]");
    std::process::exit(2);
  }
  let id = args[1].clone();
  if id == "RACE" {
    // hpxmc RACE <property> <variant> [time]: two threads running the property's call alphabet
    // concurrently; meant to be executed by miri (happens-before race detection), see seq.rs
    std::panic::set_hook(Box::new(|_| {}));
    let pid = args.get(2).cloned().unwrap_or_default();
    let variant: usize = args.get(3).and_then(|a| a.parse().ok()).unwrap_or(0);
    std::process::exit(seq::race_harness(&pid, variant, args.get(4).map(|a| a == "time").unwrap_or(false)));
  }
  let mut tier = std::env::var("VERIF_TIER").unwrap_or_else(|_| "quick".to_string());
  let mut config = "release".to_string();
  let mut verif_dir = "/verif".to_string();
  let mut replay: Option<String> = None;
  let mut i = 2;
  while i < args.len() {
    match args[i].as_str() {
      "--tier" => { tier = args[i + 1].clone(); i += 1; }
      "--config" => { config = args[i + 1].clone(); i += 1; }
      "--verif-dir" => { verif_dir = args[i + 1].clone(); i += 1; }
      "--replay" => { replay = Some(args[i + 1].clone()); i += 1; }
      a => { eprintln!("unknown argument {}", a); std::process::exit(2); }
    }
    i += 1;
  }
  if tier != "quick" && tier != "thorough" {
    eprintln!("bad tier {}", tier);
    std::process::exit(2);
  }
  let seed: i64 = std::env::var("VERIF_SEED").ok().and_then(|s| s.parse().ok()).unwrap_or(0);
  // the subject's panics are observations: keep them silent
  std::panic::set_hook(Box::new(|_| {}));
  let budget_s: f64 = std::env::var("HPXMC_BUDGET_S").ok().and_then(|s| s.parse().ok())
    .unwrap_or(if tier == "quick" { 50.0 } else { 1500.0 });
  let ctx = Ctx {
    id: id.clone(), tier, seed, verif_dir: verif_dir.clone(), start: Instant::now(), config,
    findings: Findings::load(&verif_dir), budget_s,
  };
  SEQ_HOOK.set(seq::hook).ok();
  let self_check = std::panic::catch_unwind(|| { refm::self_check(); refm::r3_self_check(); });
  if self_check.is_err() {
    eprintln!("[hpxmc] MACHINERY ERROR: reference-model self check failed");
    std::process::exit(2);
  }
  if let Some(path) = replay {
    let doc: Value = serde_json::from_str(&std::fs::read_to_string(&path).expect("read replay")).expect("parse replay");
    let case = &doc["case"];
    let kind = doc["kind"].as_str().unwrap_or("").to_string();
    let api = doc["api"].as_str().unwrap_or("").to_string();
    let run = || -> Option<Viol> {
      if case.get("sequence_alphabet").is_some() {
        let (alpha, _) = seq::alphabet(case["sequence_alphabet"].as_str().unwrap()).expect("unknown call-sequence alphabet");
        return seq::replay(case, &alpha);
      }
      match id.as_str() {
        "C01" => c01::replay(case, false),
        "C02" => c01::replay(case, true),
        "C03" => c03::replay(case),
        "C04" => c04::replay(case, &api),
        "C05" => cone::replay(case, false, &ctx.findings),
        "C06" => cone::replay(case, true, &ctx.findings),
        "C07" => c07::replay(case, c07::Mode::Moc),
        "C08" => c07::replay(case, c07::Mode::Bmoc),
        "C09" => c09::replay(case),
        "C10" => c10::replay(case),
        "C11" => c11::replay(case, &ctx.findings),
        "C12" => c12::replay(case),
        "C13" => c13::replay(case, &ctx.findings),
        "C14" => c14::replay(case),
        "C15" => c15::replay(case),
        "C16" => c16::replay(case, &ctx.findings),
        "C17" => c17::replay(case),
        "C18" => c18::replay(case),
        "C19" => c19::replay(case),
        _ => { eprintln!("no replay for {}", id); std::process::exit(2); }
      }
    };
    let _ = (&kind, &api);
    let r1 = run();
    let r2 = run();
    match (&r1, &r2) {
      (Some(a), Some(b)) if a.actual == b.actual => {
        eprintln!("REPLAY {}: still violates\n  api: {}\n  kind: {}\n  expected: {}\n  actual:   {}", id, a.api, a.kind, a.expected, a.actual);
        std::process::exit(1);
      }
      (None, None) => {
        eprintln!("REPLAY {}: case no longer violates", id);
        std::process::exit(0);
      }
      _ => {
        eprintln!("REPLAY {}: NON-DETERMINISTIC result (machinery error)", id);
        std::process::exit(2);
      }
    }
  }
  if id == "LITERALS" {
    let (i, f) = alpha::source_literals();
    println!("{} integer literals, {} float literals", i.len(), f.len());
    for d in [8u8, 17, 20, 29] {
      println!("depth {}: {} literal coordinates", d, alpha::literal_coords(&i, d).len());
    }
    println!("floats: {:?}", &f[..f.len().min(400)]);
    std::process::exit(0);
  }
  let code = match id.as_str() {
    "C01" => c01::run(&ctx, false),
    "C02" => c01::run(&ctx, true),
    "C03" => c03::run(&ctx),
    "C04" => c04::run(&ctx),
    "C05" => cone::run(&ctx, false),
    "C06" => cone::run(&ctx, true),
    "C07" => c07::run(&ctx, c07::Mode::Moc),
    "C08" => c07::run(&ctx, c07::Mode::Bmoc),
    "C09" => c09::run(&ctx),
    "C10" => c10::run(&ctx),
    "C11" => c11::run(&ctx),
    "C12" => c12::run(&ctx),
    "C13" => c13::run(&ctx),
    "C14" => c14::run(&ctx),
    "C15" => c15::run(&ctx),
    "C16" => c16::run(&ctx),
    "C17" => c17::run(&ctx),
    "C18" => c18::run(&ctx),
    "C19" => c19::run(&ctx),
    _ => { eprintln!("unknown property {}", id); 2 }
  };
  std::process::exit(code);
}
