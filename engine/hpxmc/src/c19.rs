//! C19: bilinear interpolation = partition of unity over the right cells -- shape S.

use crate::alpha::*;
use crate::refm::*;
use crate::report::*;
use cdshealpix::nested;
use serde_json::{json, Map, Value};

const OFFS: [f64; 7] = [0.02, 0.25, 0.4999, 0.5, 0.5001, 0.75, 0.98];

fn case_json(depth: u8, lon: f64, lat: f64) -> Value {
  json!({"depth": depth, "lon": f64_json(lon), "lat": f64_json(lat)})
}

/// `known`: when the position was built from (cell, dx, dy), these values (for the centre and
/// weighted-mean clauses).
pub fn check(depth: u8, lon: f64, lat: f64, known: Option<(u64, f64, f64)>, part: &mut Part) -> Option<Viol> {
  let case = case_json(depth, lon, lat);
  journal("nested::bilinear_interpolation", || case.clone());
  let mk = |kind: &str, expected: String, actual: String| Some(Viol { api: "nested::bilinear_interpolation".into(), kind: kind.into(), case: case.clone(), expected, actual });
  let res = match guarded(move || nested::bilinear_interpolation(depth, lon, lat)) {
    Ok(r) => r,
    Err(m) => return mk("panic-in-domain", "four (cell, weight) pairs".into(), format!("panic: {}", m)),
  };
  part.outcome(hash64(&[depth as u64, res[0].0, res[1].0, res[2].0, res[3].0]));
  let show = format!("{:?}", res);
  let nh = n_hash(depth);
  let mut sum = 0.0;
  for &(c, w) in &res {
    if c >= nh {
      return mk("cell-out-of-range", format!("cells < {}", nh), show);
    }
    if !(w >= -1e-12) || !w.is_finite() {
      return mk("negative-weight", "non-negative weights".into(), show);
    }
    sum += w;
  }
  part.validated += 1;
  if !((sum - 1.0).abs() <= 1e-9) {
    return mk("weights-do-not-sum-to-1", "weights summing to 1".into(), format!("sum = {} for {}", sum, show));
  }
  // a containing cell is present and all cells are that cell or neighbours of it
  let (x, y) = ref_proj(lon, lat);
  let mut ok = false;
  let mut any_containing = false;
  let mut why = String::new();
  for &(c, _) in &res {
    if outside(depth, c, x, y) <= TOL_PLANE {
      any_containing = true;
      let nb = ref_neighbours(depth, c);
      let all_in = res.iter().all(|&(o, _)| o == c || nb.iter().any(|&(_, n)| n == o));
      if all_in {
        // missing corner => a weight-0 entry
        let missing_corner = nb.len() < 8 && depth > 0;
        if missing_corner {
          // is the position in the quadrant of the missing corner? then one entry must carry weight 0
          // (checked weakly: if fewer than 4 distinct cells are returned, one weight must be exactly 0)
          let mut distinct: Vec<u64> = res.iter().map(|e| e.0).collect();
          distinct.sort();
          distinct.dedup();
          if distinct.len() < 4 && !res.iter().any(|e| e.1 == 0.0) && known.map(|k| (k.1 - 0.5).abs() > 1e-6 && (k.2 - 0.5).abs() > 1e-6).unwrap_or(false) {
            why = "fewer than four distinct cells but no weight-0 entry for the missing corner".into();
            continue;
          }
        }
        ok = true;
        break;
      } else {
        why = format!("cell(s) not among cell {} and its neighbours {:?}", c, nb.iter().map(|e| e.1).collect::<Vec<_>>());
      }
    }
  }
  part.validated += 1;
  if !any_containing {
    return mk("containing-cell-absent", "a cell containing the position among the four".into(), show);
  }
  if !ok {
    return mk("wrong-cells", "the containing cell and neighbours of it".into(), format!("{} ({})", show, why));
  }
  if known.is_none() {
    // the weighted-mean clause from the reference projection alone: grid coordinates (u, v) of the
    // position in the base cell of the four cells
    let b0 = decode(depth, res[0].0).0;
    if res.iter().all(|e| decode(depth, e.0).0 == b0) {
      let n = nside(depth) as f64;
      let (bx, by) = base_center(b0);
      // image of the position closest to the centre of the base cell
      let (imgs, k) = images(x, y);
      let mut best = (f64::INFINITY, 0.0, 0.0);
      for &(xi, yi) in &imgs[..k] {
        let dxp = wrap8(xi - bx as f64);
        let d = dxp.abs() + (yi - by as f64).abs();
        if d < best.0 {
          best = (d, dxp, yi - by as f64);
        }
      }
      let (a, b) = (best.1 * n, best.2 * n + n);
      let (u, v) = ((a + b) / 2.0, (b - a) / 2.0);
      let (mut mu, mut mv) = (0.0, 0.0);
      for &(o, w) in &res {
        let (_, i, j) = decode(depth, o);
        mu += w * (i as f64 + 0.5);
        mv += w * (j as f64 + 0.5);
      }
      part.validated += 1;
      let tol = 1e-9 + 64.0 * f64::EPSILON * n;
      if !((mu - u).abs() <= tol && (mv - v).abs() <= tol) {
        return mk("weighted-mean", format!("weighted mean of the cell centres = ({}, {}) in the grid of base cell {} (the four cells lie in it)", u, v, b0), format!("({}, {}) from {}", mu, mv, show));
      }
    }
  }
  if let Some((c, dx, dy)) = known {
    // weight 1 at the centre
    if dx == 0.5 && dy == 0.5 {
      let wc: f64 = res.iter().filter(|e| e.0 == c).map(|e| e.1).sum();
      // the position itself is only known to ~1e-16 * 8 * nside cells
      if !((wc - 1.0).abs() <= 1e-9 + 64.0 * f64::EPSILON * nside(depth) as f64) {
        return mk("centre-weight", format!("weight 1 on cell {} at its centre", c), show);
      }
    }
    // weighted mean of the centres (in the grid of the base cell) = the position
    let (b0, ic, jc) = decode(depth, c);
    let same_base = res.iter().all(|e| decode(depth, e.0).0 == b0);
    if same_base {
      let (mut mu, mut mv) = (0.0, 0.0);
      for &(o, w) in &res {
        let (_, i, j) = decode(depth, o);
        mu += w * (i as f64 + 0.5);
        mv += w * (j as f64 + 0.5);
      }
      let (u, v) = (ic as f64 + dx, jc as f64 + dy);
      part.validated += 1;
      // the position itself is only known to ~1e-16 * 8 * nside cells
      let tol = 1e-9 + 64.0 * f64::EPSILON * nside(depth) as f64;
      if !((mu - u).abs() <= tol && (mv - v).abs() <= tol) {
        return mk("weighted-mean", format!("weighted mean of the cell centres = ({}, {}) in the base-cell grid", u, v), format!("({}, {}) from {}", mu, mv, show));
      }
    }
  }
  None
}

fn pos_of(depth: u8, h: u64, dx: f64, dy: f64) -> (f64, f64) {
  let n = nside(depth) as f64;
  let (xc, yc) = center_plane(depth, h);
  ref_unproj(xc + (dx - dy) / n, (yc + (dx + dy - 1.0) / n).max(-2.0).min(2.0))
}

pub fn run(ctx: &Ctx) -> i32 {
  let quick = ctx.quick();
  let d_exh: u8 = if quick { 3 } else { 6 };
  enum Job {
    Cells(u8, u64, u64),
    Class(u8),
    Nodes(usize, usize),
  }
  let mut jobs = vec![];
  for d in 0..=d_exh {
    let nh = n_hash(d);
    let step = 256u64;
    let mut lo = 0;
    while lo < nh {
      jobs.push(Job::Cells(d, lo, (lo + step).min(nh)));
      lo += step;
    }
  }
  for d in (d_exh + 1)..=29 {
    jobs.push(Job::Class(d));
  }
  let b = if quick { 2 } else { 5 };
  let mut nodes: Vec<(f64, f64)> = plane_nodes(b);
  let bd: Vec<u8> = if quick { vec![0, 1, 2, 3, 12, 29] } else { vec![0, 1, 2, 3, 6, 12, 20, 29] };
  for &d in &bd {
    nodes.extend(deep_border_nodes(d));
  }
  for &(lon, lat) in fibonacci_points(if quick { 500 } else { 10_000 }).iter() {
    nodes.push(ref_proj(lon, lat));
  }
  let turns: Vec<f64> = if quick { vec![0.0, 3.0] } else { vec![0.0, -1.0, 3.0] };
  let chunk = 256;
  let mut lo = 0;
  while lo < nodes.len() {
    jobs.push(Job::Nodes(lo, (lo + chunk).min(nodes.len())));
    lo += chunk;
  }
  let total = par_jobs(jobs.len(), |j| {
    let mut part = Part::new();
    if ctx.over_budget() {
      part.caps.push(format!("wall budget {}s reached in C19 enumeration", ctx.budget_s));
      return part;
    }
    let mut do_cell = |d: u8, h: u64, part: &mut Part, stratum: &str| {
      for &dx in &OFFS {
        for &dy in &OFFS {
          let (lon, lat) = pos_of(d, h, dx, dy);
          part.stratum(stratum, 1, 1);
          // the offsets are exact only up to the rounding of the position: tell the checker the
          // construction values only when they are robust (centre, or depth small enough)
          if let Some(v) = check(d, lon, lat, Some((h, dx, dy)), part) {
            part.viol(v);
          }
        }
      }
    };
    match &jobs[j] {
      Job::Cells(d, lo, hi) => {
        for h in *lo..*hi {
          do_cell(*d, h, &mut part, "all-cells-7x7-offsets");
        }
      }
      Job::Class(d) => {
        let hw: Vec<u64> = if *d == 20 || *d == 29 { halfword_sweep_cells(*d).into_iter().step_by(if ctx.quick() { 48 } else { 3 }).collect() } else { vec![] };
        for h in class_cells(*d).into_iter().chain(carry_cells(*d, false).into_iter()).chain(hw.into_iter()) {
          do_cell(*d, h, &mut part, "border-class-cells-7x7-offsets");
        }
        if *d == 17 {
          let h = class_cells(*d)[3];
          let (lon, lat) = pos_of(*d, h, 0.25, 0.75);
          part.sample(json!({"depth": d, "lon": lon, "lat": lat, "result": format!("{:?}", guarded(move || nested::bilinear_interpolation(17, lon, lat)))}));
        }
      }
      Job::Nodes(lo, hi) => {
        for idx in *lo..*hi {
          let (px, py) = nodes[idx];
          let (lon0, lat0) = ref_unproj(px, py);
          for (lon, lat) in nudged(lon0, lat0, 1) {
            if lat.abs() > HALF_PI {
              continue;
            }
            for &t in &turns {
              part.stratum("seam-and-border-positions", 30, 30);
              for depth in 0..30u8 {
                if let Some(v) = check(depth, lon + t * TWO_PI, lat, None, &mut part) {
                  part.viol(v);
                }
              }
            }
          }
        }
      }
    }
    part
  });
  let mut total = total;
  {
    let mut pos = exponent_sweep_positions();
    pos.extend(degree_positions()); // "round" user values: integer degrees
    let chunk = 128usize;
    let sweep = par_jobs((pos.len() + chunk - 1) / chunk, |job| {
      let mut part = Part::new();
      for &(lon, lat) in &pos[job * chunk..((job + 1) * chunk).min(pos.len())] {
        for d in 0..30u8 {
          part.stratum("exponent-sweep", 1, 1);
          if let Some(v) = check(d, lon, lat, None, &mut part) {
            part.viol(v);
          }
        }
      }
      part
    });
    total.merge(sweep);
  }
  finish(
    ctx,
    total,
    json!({"exhaustive_depths": format!("0..={} (all cells x 7x7 offsets incl. the quadrant lines 0.5 +- 1e-4)", d_exh), "class_depths": format!("{}..=29 (border / corner classes incl. all cells next to the 8 three-cell points)", d_exh + 1),
      "positions": format!("plane lattice 2^-{} + border classes of depths {:?}, 3x3 ulp nudges, turns {:?}, x 30 depths", b, bd, turns)}),
    "all cells of the exhaustive depths and class cells deeper x 49 offsets; all lattice / border positions x 30 depths",
    vec!["R1/R2: containment and lattice neighbours".into(), "weighted-mean clause checked only when the four cells lie in one base cell (as stated)".into()],
    Map::new(),
  )
}

pub fn replay(case: &Value) -> Option<Viol> {
  let mut part = Part::new();
  let depth = case["depth"].as_u64().unwrap() as u8;
  let lon = f64_from_json(&case["lon"]);
  let lat = f64_from_json(&case["lat"]);
  // recover the construction values when the position is an offset position of some cell
  check(depth, lon, lat, None, &mut part).or_else(|| {
    let (x, y) = ref_proj(lon, lat);
    let h = guarded(move || nested::hash(depth, lon, lat)).ok()?;
    let n = nside(depth) as f64;
    let (xc, yc) = center_plane(depth, h);
    let a = wrap8(x - xc) * n;
    let b = (y - yc) * n + 1.0;
    let (dx, dy) = ((a + b) / 2.0, (b - a) / 2.0);
    let snap = |v: f64| OFFS.iter().cloned().find(|o| (o - v).abs() < 1e-6);
    match (snap(dx), snap(dy)) {
      (Some(dx), Some(dy)) => check(depth, lon, lat, Some((h, dx, dy)), &mut part),
      _ => None,
    }
  })
}
