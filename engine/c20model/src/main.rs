//! Abstract model of the lazy per-depth table (C20), checked with stateright.
//!
//! The per-thread program is generated from the hook-point sequences RECORDED on the real code
//! (single thread, first and second call): if the code loses its unsynchronised fast path, or
//! gains one, the model follows.  Granularity is finer than what the scheduler on the real code
//! can drive: the store of the slot is split in two steps (a reader in between observes a torn
//! value).  Every maximal path is projected on the hook-level decisions and handed back to
//! c20sched, which replays it on the implementation.
//!
//! Input (argv[1], JSON): {first: [[tid, table, point, depth], ...], second: [...], threads: N,
//! calls: C, max_traces: K}.  Output: one line `RESULT {json}`.

use serde_json::{json, Value};
use stateright::{Checker, Model, Property};
use std::collections::BTreeSet;

const P_FAST_READ: u8 = 1;
const P_BEFORE_ONCE: u8 = 2;
const P_INIT_BEGIN: u8 = 3;
const P_INIT_END: u8 = 4;
const P_AFTER_ONCE: u8 = 5;
const P_FINAL_READ: u8 = 6;
const P_NEW_BEGIN: u8 = 7;
const P_NEW_END: u8 = 8;

#[derive(Clone, Debug, Hash, PartialEq, Eq)]
enum Pos {
  NotStarted,
  At(u8),
  /// the initialiser is between the two halves of the slot store
  MidStore,
  Finished,
}

#[derive(Clone, Debug, Hash, PartialEq, Eq)]
enum OnceSt {
  Incomplete,
  Running(usize),
  Complete,
}

#[derive(Clone, Debug, Hash, PartialEq, Eq)]
struct State {
  pos: Vec<Pos>,
  call: Vec<u8>,
  once: OnceSt,
  /// 0 = None, 1 = half written, 2 = Some
  slot: u8,
  count: u8,
  acquired: Vec<bool>,
  unsync_readers: Vec<bool>,
  writer: Option<usize>,
  torn_seen: bool,
  race: bool,
  final_read_none: bool,
}

#[derive(Clone, Debug, Hash, PartialEq, Eq)]
enum Action {
  /// thread advances to its next hook point (or finishes): a scheduler decision
  Step(usize),
  /// first half of the slot store (not a scheduler decision on the real code)
  HalfStore(usize),
}

struct C20 {
  n: usize,
  calls: u8,
  has_fast_read: bool,
}

impl C20 {
  fn enabled(&self, s: &State, t: usize) -> bool {
    match &s.pos[t] {
      Pos::Finished => false,
      Pos::At(p) if *p == P_BEFORE_ONCE => !matches!(&s.once, OnceSt::Running(o) if *o != t),
      _ => true,
    }
  }

  fn read_slot(&self, s: &mut State, t: usize) -> u8 {
    if !s.acquired[t] {
      s.unsync_readers[t] = true;
      if let Some(w) = s.writer {
        if w != t {
          s.race = true;
        }
      }
    }
    if s.slot == 1 {
      s.torn_seen = true;
    }
    s.slot
  }

  fn start_call(&self, s: &mut State, t: usize) {
    s.pos[t] = Pos::At(if self.has_fast_read { P_FAST_READ } else { P_BEFORE_ONCE });
  }

  fn end_call(&self, s: &mut State, t: usize) {
    s.call[t] += 1;
    if s.call[t] >= self.calls {
      s.pos[t] = Pos::Finished;
    } else {
      self.start_call(s, t);
    }
  }

  fn step(&self, s: &State, t: usize) -> State {
    let mut n = s.clone();
    match s.pos[t].clone() {
      Pos::NotStarted => self.start_call(&mut n, t),
      Pos::At(p) => match p {
        P_FAST_READ => {
          let v = self.read_slot(&mut n, t);
          if v == 2 {
            self.end_call(&mut n, t); // fast path hit
          } else {
            n.pos[t] = Pos::At(P_BEFORE_ONCE);
          }
        }
        P_BEFORE_ONCE => match s.once {
          OnceSt::Complete => {
            n.acquired[t] = true;
            n.pos[t] = Pos::At(P_AFTER_ONCE);
          }
          OnceSt::Incomplete => {
            n.once = OnceSt::Running(t);
            n.pos[t] = Pos::At(P_INIT_BEGIN);
          }
          OnceSt::Running(_) => unreachable!(),
        },
        P_INIT_BEGIN => {
          n.count += 1; // the constructor is entered
          n.pos[t] = Pos::At(P_NEW_BEGIN);
        }
        P_NEW_BEGIN => n.pos[t] = Pos::At(P_NEW_END),
        P_NEW_END => {
          // the whole store in one go (when HalfStore was not taken)
          self.write(&mut n, t);
          n.pos[t] = Pos::At(P_INIT_END);
        }
        P_INIT_END => {
          n.once = OnceSt::Complete;
          n.acquired[t] = true;
          n.pos[t] = Pos::At(P_AFTER_ONCE);
        }
        P_AFTER_ONCE => n.pos[t] = Pos::At(P_FINAL_READ),
        P_FINAL_READ => {
          let v = self.read_slot(&mut n, t);
          if v != 2 {
            n.final_read_none = true;
          }
          self.end_call(&mut n, t);
        }
        _ => unreachable!(),
      },
      Pos::MidStore => {
        n.slot = 2;
        n.pos[t] = Pos::At(P_INIT_END);
      }
      Pos::Finished => unreachable!(),
    }
    n
  }

  fn write(&self, n: &mut State, t: usize) {
    n.slot = 2;
    n.writer = Some(t);
    for r in 0..self.n {
      if r != t && n.unsync_readers[r] {
        n.race = true;
      }
    }
  }
}

impl Model for C20 {
  type State = State;
  type Action = Action;

  fn init_states(&self) -> Vec<State> {
    vec![State {
      pos: vec![Pos::NotStarted; self.n],
      call: vec![0; self.n],
      once: OnceSt::Incomplete,
      slot: 0,
      count: 0,
      acquired: vec![false; self.n],
      unsync_readers: vec![false; self.n],
      writer: None,
      torn_seen: false,
      race: false,
      final_read_none: false,
    }]
  }

  fn actions(&self, s: &State, actions: &mut Vec<Action>) {
    for t in 0..self.n {
      if self.enabled(s, t) {
        actions.push(Action::Step(t));
        if s.pos[t] == Pos::At(P_NEW_END) {
          actions.push(Action::HalfStore(t));
        }
      }
    }
  }

  fn next_state(&self, s: &State, a: Action) -> Option<State> {
    match a {
      Action::Step(t) => Some(self.step(s, t)),
      Action::HalfStore(t) => {
        let mut n = s.clone();
        n.slot = 1;
        n.writer = Some(t);
        for r in 0..self.n {
          if r != t && n.unsync_readers[r] {
            n.race = true;
          }
        }
        n.pos[t] = Pos::MidStore;
        Some(n)
      }
    }
  }

  fn properties(&self) -> Vec<Property<Self>> {
    vec![
      Property::always("exactly-one-construction", |m: &C20, s: &State| s.count <= 1 && (!s.pos.iter().any(|p| *p == Pos::Finished) || s.count == 1) && m.n > 0),
      Property::always("no-torn-observation", |_, s: &State| !s.torn_seen),
      Property::always("no-unordered-slot-access", |_, s: &State| !s.race),
      Property::always("final-read-sees-the-object", |_, s: &State| !s.final_read_none),
      Property::always("no-deadlock", |m: &C20, s: &State| s.pos.iter().all(|p| *p == Pos::Finished) || (0..m.n).any(|t| m.enabled(s, t))),
      // never discovered: keeps the checker exploring the whole state space
      Property::sometimes("(never) keep exploring", |_, _| false),
    ]
  }
}

fn points_of(events: &Value) -> Vec<u8> {
  events.as_array().map(|a| a.iter().map(|e| e[2].as_u64().unwrap() as u8).collect()).unwrap_or_default()
}

/// Hook events (thread, point) produced along a path, and the decision order (thread ids).
fn project(m: &C20, path: &[Action]) -> (Vec<usize>, Vec<(usize, u8)>, u8) {
  let mut s = m.init_states().remove(0);
  let mut order = vec![];
  let mut events = vec![];
  for a in path {
    let n = m.next_state(&s, a.clone()).unwrap();
    match a {
      Action::Step(t) => {
        order.push(*t);
        if let Pos::At(p) = &n.pos[*t] {
          // a new arrival, unless the thread only completed the second half of a store
          events.push((*t, *p));
        }
      }
      Action::HalfStore(_) => {}
    }
    s = n;
  }
  (order, events, s.count)
}

fn main() {
  let arg = std::env::args().nth(1).expect("spec");
  let spec: Value = serde_json::from_str(&arg).expect("json");
  let first = points_of(&spec["first"]);
  let second = points_of(&spec["second"]);
  let n = spec["threads"].as_u64().unwrap_or(2) as usize;
  let calls = spec["calls"].as_u64().unwrap_or(1) as u8;
  let max_traces = spec["max_traces"].as_u64().unwrap_or(1000) as usize;
  // bind the model to the recorded control flow
  let with_fast = vec![P_FAST_READ, P_BEFORE_ONCE, P_INIT_BEGIN, P_NEW_BEGIN, P_NEW_END, P_INIT_END, P_AFTER_ONCE, P_FINAL_READ];
  let without_fast: Vec<u8> = with_fast[1..].to_vec();
  let has_fast_read = if first == with_fast && second == vec![P_FAST_READ] {
    true
  } else if first == without_fast && second == vec![P_BEFORE_ONCE, P_AFTER_ONCE, P_FINAL_READ] {
    false
  } else {
    println!("RESULT {}", json!({"status": "unbound", "explanation": format!("the recorded point sequences {:?} / {:?} match no known skeleton", first, second)}));
    return;
  };
  // self-check of the binding: a single model thread produces exactly the recorded sequences
  {
    let m1 = C20 { n: 1, calls: 2, has_fast_read };
    let mut s = m1.init_states().remove(0);
    let mut seq = vec![];
    while s.pos[0] != Pos::Finished {
      s = m1.step(&s, 0);
      if let Pos::At(p) = &s.pos[0] {
        seq.push(*p);
      }
    }
    let mut expected = first.clone();
    expected.extend(second.iter());
    assert_eq!(seq, expected, "model skeleton does not reproduce the recorded sequences");
  }
  let model = C20 { n, calls, has_fast_read };
  let checker = model.checker().threads(1).spawn_dfs().join();
  let states = checker.unique_state_count();
  let generated = checker.state_count();
  let max_depth = checker.max_depth();
  let mut props = vec![];
  let mut violated = vec![];
  let disc = checker.discoveries();
  for p in checker.model().properties() {
    if p.name.starts_with("(never)") {
      continue;
    }
    match disc.get(p.name) {
      Some(path) => {
        let actions = path.clone().into_actions();
        let (order, events, _) = project(checker.model(), &actions);
        props.push(json!({"property": p.name, "holds": false}));
        violated.push(json!({"property": p.name, "trace": actions.iter().map(|a| format!("{:?}", a)).collect::<Vec<_>>(), "order": order,
          "explanation": format!("hook events (thread, point): {:?}", events)}));
      }
      None => props.push(json!({"property": p.name, "holds": true})),
    }
  }
  // all maximal paths (the model is finite and acyclic), projected on the hook-level decisions
  let m = checker.model();
  let mut stack: Vec<(State, Vec<Action>)> = vec![(m.init_states().remove(0), vec![])];
  let mut projected: BTreeSet<(Vec<usize>, Vec<(usize, u8)>, u8)> = BTreeSet::new();
  let mut maximal = 0u64;
  let mut transitions = 0u64;
  let mut capped = false;
  while let Some((s, path)) = stack.pop() {
    let mut acts = vec![];
    m.actions(&s, &mut acts);
    if acts.is_empty() {
      maximal += 1;
      if projected.len() < max_traces {
        projected.insert(project(m, &path));
      } else {
        capped = true;
      }
      if maximal > 5_000_000 {
        capped = true;
        break;
      }
      continue;
    }
    for a in acts {
      transitions += 1;
      let n = m.next_state(&s, a.clone()).unwrap();
      let mut p = path.clone();
      p.push(a);
      stack.push((n, p));
    }
  }
  let schedules: Vec<Value> = projected.iter().map(|(order, events, count)| json!({"order": order, "events": events.iter().map(|e| json!([e.0, e.1])).collect::<Vec<_>>(), "constructions": count})).collect();
  println!(
    "RESULT {}",
    json!({"status": "ok", "has_fast_read": has_fast_read, "states": states, "states_generated": generated, "transitions": transitions, "max_depth": max_depth,
      "properties": props, "violated_properties": violated, "maximal_paths": maximal, "schedules": schedules, "traces_capped": capped})
  );
}
