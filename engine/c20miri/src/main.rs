//! Happens-before race detection on the first-use harness bodies of C20 (run under miri).
//!
//! miri tracks every memory access with vector clocks: two accesses of one location by two
//! threads, one of them a write, that are not ordered by a synchronisation edge are reported as
//! a data race -- in ANY execution that performs both, whatever their timing.  It therefore sees
//! the unsynchronised accesses that lie in hook-free windows, which the controlled scheduler of
//! `c20sched` cannot split and free-running stress only hits by luck.  One execution per
//! (scenario, seed); the seeds vary miri's own (deterministic, seeded) thread scheduling.
//!
//! usage: c20miri <scenario>      (exit 0 = no race / no mismatch; miri aborts on a race)
use std::sync::{Arc, Barrier};

fn layer_use(d: u8) -> (usize, u64, u64) {
  let l = cdshealpix::nested::get_or_create(d);
  let h = l.hash(1.0, 0.5);
  (l as *const cdshealpix::nested::Layer as usize, l.n_hash(), h)
}

fn c2v_use(d: u8) -> u64 {
  cdshealpix::largest_center_to_vertex_distance(d, 0.3, 0.2).to_bits()
}

fn main() {
  let scenario: u32 = std::env::args().nth(1).and_then(|a| a.parse().ok()).unwrap_or(0);
  // (thread -> list of calls); a call = (table, depth): table 0 = Layer, 1 = cell-size constants
  let plans: Vec<Vec<(u8, u8)>> = match scenario {
    0 => vec![vec![(0, 3)], vec![(0, 3)]],                       // same depth, Layer
    1 => vec![vec![(0, 4)], vec![(0, 5)]],                       // adjacent depths, Layer
    2 => vec![vec![(0, 5)], vec![(0, 4)], vec![(0, 6)]],         // three adjacent depths
    3 => vec![vec![(1, 3)], vec![(1, 3)]],                       // same depth, cell-size constants
    4 => vec![vec![(1, 4)], vec![(1, 5)]],                       // adjacent depths, cell-size constants
    5 => vec![vec![(0, 7)], vec![(1, 7)]],                       // the two tables of one depth
    6 => vec![vec![(0, 2), (1, 2), (0, 1)], vec![(1, 2), (0, 2), (0, 3)]], // mixed sequences
    7 => vec![vec![(0, 0), (0, 1)], vec![(0, 1), (0, 0)]],       // crossed orders, depths 0 and 1
    8 => vec![vec![(0, 29)], vec![(0, 28)], vec![(1, 29)]],      // deepest depths
    _ => vec![vec![(0, 9), (0, 9)], vec![(0, 9), (1, 9)], vec![(1, 9), (0, 8)]], // second use
  };
  let barrier = Arc::new(Barrier::new(plans.len()));
  let handles: Vec<_> = plans
    .iter()
    .cloned()
    .map(|plan| {
      let b = barrier.clone();
      std::thread::spawn(move || {
        b.wait();
        plan.iter().map(|&(t, d)| if t == 0 { let r = layer_use(d); (t, d, r.0 as u64, r.1, r.2) } else { (t, d, 0, 0, c2v_use(d)) }).collect::<Vec<_>>()
      })
    })
    .collect();
  let results: Vec<Vec<(u8, u8, u64, u64, u64)>> = handles.into_iter().map(|h| h.join().expect("a thread panicked")).collect();
  // every thread obtained what a later sequential call obtains
  for r in results.iter().flatten() {
    let (t, d, addr, nh, v) = *r;
    if t == 0 {
      let l = layer_use(d);
      assert_eq!((l.0 as u64, l.1, l.2), (addr, nh, v), "Layer of depth {}", d);
      assert_eq!(nh, 12u64 << (2 * d as u32));
    } else {
      assert_eq!(c2v_use(d), v, "cell-size constants of depth {}", d);
    }
  }
  println!("OK scenario {}", scenario);
}
