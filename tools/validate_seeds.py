#!/usr/bin/env python3
"""Validate the seeded property-breaking changes kept under /verif/seeded/<id>/ and run the checks on them.

For every seed (patch.diff + seeded_demo.rs):
  1. in a scratch worktree of /repo's HEAD (under /tmp, removed afterwards): the patch applies, the
     repository's own suite (63 unit tests + 58 doctests) still passes with it, the demonstration
     fails with it and passes without it;
  2. in /repo itself: apply the patch, run the quick (and optionally thorough) check of the owning
     property (and of the other properties listed in EXTRA), undo the patch;
  3. write meta.json.
Usage: tools/validate_seeds.py [seed-id ...] [--thorough]
"""
import json, os, subprocess, sys, shutil, re, threading
GIT_LOCK = threading.Lock()

V = "/verif"
SEEDS = os.path.join(V, "seeded")
SCRATCH = "/tmp/seedval"
EXTRA = {  # other checks that are expected to see the same change
    "C07-or-tail-raw-copy": ["C09"], "C07-or-gallop-nth": ["C08", "C09", "C15"], "C09-fixed-depth-dd-clamp": ["C15"], "C06-c2v-table-clamped": ["C05"], "C05-npc-helper-radius-arg": ["C06", "C16"], "C03-eqr-clamp-dropped": ["C01", "C02"], "C15-is-in-branch-free": ["C07", "C08"], "C02-ij2h-midword-xor-swap": ["C18", "C01"], "C05-table-entry-23": ["C16", "C13"], "C02-hash-last-layer-cache": ["C01", "C03", "C19"], "C04-neighbour-decode-memo-race": ["C14"], "C05-start-cells-global-cache": ["C06", "C13"], "C15-pack-pass-budget": ["C07", "C08", "C09"], "C09-or-disjoint-fastpath": ["C07", "C08", "C15"], "C15-pack-tail": ["C07"], "C19-dxdy-before-clamp": ["C03"], "C17-pm1-offset-turns": ["C11"], "C01-neg-lon-turns": ["C02", "C05"],
    "C06-pack-tail": ["C07", "C09"], "C07-pack-tail": ["C06", "C09"], "C09-dedup-before-sort": ["C15"],
    "C15-drain-fastpath": ["C09"], "C05-with-radius-dispatch-smallcone": ["C16"], "C16-with-radius-dispatch": ["C05"],
    "C01-mask-clamp": ["C02", "C03"], "C02-eps-before-trunc": ["C01"], "C03-npc-sqrt-cancel": ["C01", "C02"],
    "C04-eqr-E-corner": ["C14", "C19"], "C18-h2ij-byte7": ["C03", "C04"], "C10-f32-sqrt": ["C11"], "C08-and-flag-left": ["C07"],
}

DEMO_ENV = {  # build configuration a demonstration needs
    "C18-bmi2-pext-mask": {"RUSTFLAGS": "-C target-feature=+bmi2"},
}

def sh(cmd, cwd=None, env=None, timeout=3600):
    e = dict(os.environ)
    e["CARGO_NET_OFFLINE"] = "true"
    if env:
        e.update(env)
    r = subprocess.run(cmd, cwd=cwd, env=e, shell=True, stdout=subprocess.PIPE, stderr=subprocess.STDOUT, text=True, timeout=timeout)
    return r.returncode, r.stdout

def test_summary(out):
    return re.findall(r"test result: (\w+)\. (\d+) passed; (\d+) failed", out)

def phase1(seed, scratch):
    """scratch-worktree part (can run in parallel): applies, suite, demonstration with / without"""
    SCRATCH = scratch
    d = os.path.join(SEEDS, seed)
    pid = seed.split("-")[0]
    patch = os.path.join(d, "patch.diff")
    demo = os.path.join(d, "seeded_demo.rs")
    meta = {"seed": seed, "property": pid, "patch": "patch.diff", "demonstration": "seeded_demo.rs"}
    old = {}
    if os.path.exists(os.path.join(d, "meta.json")):
        old = json.load(open(os.path.join(d, "meta.json")))
        for k in ("needs", "origin", "note"):
            if k in old:
                meta[k] = old[k]
    # 1. scratch worktree
    with GIT_LOCK:
        sh("git -C /repo worktree remove --force %s" % SCRATCH)
        shutil.rmtree(SCRATCH, ignore_errors=True)
        rc, out = sh("git -C /repo worktree add -q --detach %s HEAD" % SCRATCH)
    assert rc == 0, out
    try:
        rc, out = sh("git apply %s" % patch, cwd=SCRATCH)
        meta["applies_to_repo_head"] = (rc == 0)
        if rc != 0:
            meta["apply_error"] = out[-400:]
            return meta
        env = {"CARGO_TARGET_DIR": SCRATCH + "/target"}
        rc1, o1 = sh("cargo test --offline --lib 2>&1 | tail -5", cwd=SCRATCH, env=env)
        rc2, o2 = sh("cargo test --offline --doc 2>&1 | tail -5", cwd=SCRATCH, env=env)
        s1, s2 = test_summary(o1), test_summary(o2)
        meta["suite_with_change"] = {"unit": s1[-1] if s1 else o1[-200:], "doc": s2[-1] if s2 else o2[-200:]}
        meta["suite_passes_with_change"] = bool(s1 and s2 and s1[-1][0] == "ok" and s2[-1][0] == "ok" and s1[-1][1] == "63" and s2[-1][1] == "58")
        if os.path.exists(demo):
            os.makedirs(SCRATCH + "/tests", exist_ok=True)
            shutil.copy(demo, SCRATCH + "/tests/seeded_demo.rs")
            denv = dict(env)
            denv.update(DEMO_ENV.get(seed, {}))
            if seed in DEMO_ENV:
                denv["CARGO_TARGET_DIR"] = SCRATCH + "/target-demo"
                meta["demo_env"] = DEMO_ENV[seed]
            rc3, o3 = sh("cargo test --offline --test seeded_demo 2>&1 | tail -8", cwd=SCRATCH, env=denv, timeout=1800)
            s3 = test_summary(o3)
            meta["demo_with_change"] = s3[-1] if s3 else o3[-300:]
            sh("git checkout -- src", cwd=SCRATCH)
            rc4, o4 = sh("cargo test --offline --test seeded_demo 2>&1 | tail -8", cwd=SCRATCH, env=denv, timeout=1800)
            s4 = test_summary(o4)
            meta["demo_without_change"] = s4[-1] if s4 else o4[-300:]
            meta["demo_discriminates"] = bool(s3 and s4 and s3[-1][0] == "FAILED" and s4[-1][0] == "ok")
        else:
            meta["demo_discriminates"] = None
    finally:
        with GIT_LOCK:
            sh("git -C /repo worktree remove --force %s" % SCRATCH)
            shutil.rmtree(SCRATCH, ignore_errors=True)
    return meta

def phase1_checks_only(seed):
    """--checks-only: keep the suite / demonstration results of the last full validation (the
    subject's HEAD is recorded in what_was_run), verify that the patch still applies"""
    d = os.path.join(SEEDS, seed)
    meta = json.load(open(os.path.join(d, "meta.json")))
    meta["suite_and_demo_validated_by"] = meta.get("suite_and_demo_validated_by") or meta.get("what_was_run")
    rc, out = sh("git -C /repo apply --check %s" % os.path.join(d, "patch.diff"))
    meta["applies_to_repo_head"] = (rc == 0)
    if rc != 0:
        meta["apply_error"] = out[-400:]
    return meta

def phase2(seed, meta, thorough):
    """the checks, on /repo itself (serial)"""
    d = os.path.join(SEEDS, seed)
    pid = seed.split("-")[0]
    patch = os.path.join(d, "patch.diff")
    if not meta.get("applies_to_repo_head"):
        return meta
    # 2. the checks, on /repo itself
    rc, out = sh("git -C /repo status --porcelain --untracked-files=no")
    assert out.strip() == "", "/repo has uncommitted changes: " + out
    rc, out = sh("git -C /repo apply %s" % patch)
    assert rc == 0, out
    results = {}
    try:
        for cid in [pid] + EXTRA.get(seed, []):
            for tier in (["quick", "thorough"] if thorough else ["quick"]):
                rc, out = sh("./check %s --tier %s" % (cid, tier), cwd=V, timeout=7200)
                first = ""
                m = re.search(r"first: (api=.*)", out)
                if m:
                    first = m.group(1)
                results["%s/%s" % (cid, tier)] = {"exit": rc, "violation_lines": out.count("VIOLATION property="), "first": first}
    finally:
        sh("git -C /repo checkout -- .")
    meta["checks"] = results
    meta["detected_by_owning_check_quick"] = results.get("%s/quick" % pid, {}).get("exit") == 1
    meta["what_was_run"] = "tools/validate_seeds.py: scratch worktree of /repo HEAD %s; cargo test --lib / --doc / --test seeded_demo with and without the patch; ./check on /repo with the patch applied, then git checkout" % sh("git -C /repo log --format=%h -1")[1].strip()
    return meta

def main():
    args = [a for a in sys.argv[1:] if not a.startswith("--")]
    thorough = "--thorough" in sys.argv
    seeds = args or sorted(x for x in os.listdir(SEEDS) if os.path.isdir(os.path.join(SEEDS, x)))
    summary = []
    jobs = 1
    for a in sys.argv[1:]:
        if a.startswith("--jobs="):
            jobs = int(a.split("=")[1])
    import concurrent.futures
    if "--checks-only" in sys.argv:
        metas = {s: phase1_checks_only(s) for s in seeds}
    else:
      with concurrent.futures.ThreadPoolExecutor(max_workers=jobs) as ex:
        futs = {s: ex.submit(phase1, s, "%s-%d" % (SCRATCH, k)) for k, s in enumerate(seeds)}
        metas = {s: f.result() for s, f in futs.items()}
    print("phase 1 done", flush=True)
    for s in seeds:
        m = phase2(s, metas[s], thorough)
        json.dump(m, open(os.path.join(SEEDS, s, "meta.json"), "w"), indent=1)
        line = "%-40s applies=%s suite=%s demo=%s detected=%s %s" % (s, m.get("applies_to_repo_head"), m.get("suite_passes_with_change"), m.get("demo_discriminates"), m.get("detected_by_owning_check_quick"),
              {k: v["exit"] for k, v in m.get("checks", {}).items()})
        print(line, flush=True)
        summary.append(line)
    # the summary always lists every seed (from the meta.json files)
    import glob
    lines = []
    for f in sorted(glob.glob(os.path.join(SEEDS, "*", "meta.json"))):
        m = json.load(open(f))
        lines.append("%-40s applies=%s suite=%s demo=%s detected=%s %s" % (m["seed"], m.get("applies_to_repo_head"), m.get("suite_passes_with_change"), m.get("demo_discriminates"), m.get("detected_by_owning_check_quick"), {k: v["exit"] for k, v in m.get("checks", {}).items()}))
    open(os.path.join(SEEDS, "SUMMARY.txt"), "w").write("\n".join(lines) + "\n")

if __name__ == "__main__":
    main()
