#!/usr/bin/env python3
"""Markdown table of what the last committed runs covered (from evidence/*.json)."""
import json, glob, os
V = os.path.dirname(os.path.dirname(os.path.abspath(__file__)))
rows = []
for f in sorted(glob.glob(os.path.join(V, "evidence", "C*.json"))):
    e = json.load(open(f)); c = e["coverage"]
    rows.append((e["property_id"], e["tier"], c["states"], c["transitions"], c["traces_validated_against_impl"], c.get("distinct_outcomes"), c.get("exhaustive"), round(e["wall_s"], 1), e.get("violations"), sum(v["count"] for v in c.get("known_findings_matched", {}).values())))
print("| id | tier | states | transitions | model predictions compared | distinct outcomes | bound completed | wall s | violations | known-finding cases |")
print("|----|------|--------|-------------|----------------------------|-------------------|-----------------|--------|------------|---------------------|")
for r in rows:
    print("| " + " | ".join(str(x) for x in r) + " |")
