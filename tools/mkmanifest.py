#!/usr/bin/env python3
"""Regenerates /verif/MANIFEST.json from the table below (claimed checks) + properties.jsonl."""
import json, os
V = os.path.dirname(os.path.dirname(os.path.abspath(__file__)))
S = "bounded-exhaustive enumeration of a finite input alphabet on the real code vs an independent reference model"
E = "explicit-state breadth-first search over API-reachable values on the real code vs a reference model"
CLAIMED = {
 "C01": dict(tech=S, ref="4/C01",
   text="Model checking, stateless shape: every position of a finite alphabet (all nodes of the 2^-4 (quick) / 2^-7 (thorough) lattice of the projection plane = all vertices, edge mid-points and centres of every cell of depth < 4 / 7, all seams, transition parallels, meridians k*pi/4, poles; plus the border classes of each of the 12 base cells at every depth 0..29), each with its (2k+1)^2 one/two-ulp float neighbours and 7 longitude turns in [-8pi, 8pi], is hashed at all 30 depths in two build profiles (release; release with debug assertions and overflow checks); each result is compared with an integer-lattice containment oracle. Exhaustive over that alphabet; floats away from every enumerated border class are outside the bound.",
   note="Trusted: reference projection R1 + lattice model R2 in engine/hpxmc/src/refm.rs (self-checked at start-up), libm, the tolerance 1e-13 plane units (5e-5 of a depth-29 cell)."),
 "C02": dict(tech=S, ref="4/C02",
   text="Model checking, stateless shape: for every position of the same alphabet as C01 the 30 cell numbers are computed and compared bit for bit with the shifted depth-29 number (this implies the property for all pairs of depths). Exact integer oracle, exhaustive over the alphabet.",
   note="Trusted: nothing but integer comparison; positions outside the alphabet are not covered."),
 "C03": dict(tech=S, ref="4/C03",
   text="Model checking, stateless shape: every cell of depths 0..5 (quick) / 0..8 (thorough) and the border/corner class cells of each of the 12 base cells at every deeper depth to 29 go through every accessor (centre, 5x5 interior offsets, the 4 vertices through 4 accessors, edge paths n=1,3,4 x 2 directions x 4 starts, grids n=1,4; border points nudged inwards by 1e-3 cell) and must hash back / sit at the lattice positions of the reference model; hash_with_dxdy is run on every position of the C01 alphabet x 30 depths (containment, finite offsets in [0,1], position recovered within 1e-13 rad, sph_coo inverse, agreement with hash off borders); out-of-range hashes must panic on all 9 accessors at every depth.",
   note="Trusted: R1/R2 reference models; inward nudge of 1e-3 cell for border points; depth-uniformity for interior cells above the exhaustive depths."),
 "C04": dict(tech=S, ref="4/C04",
   text="Model checking, stateless shape: for every cell of depths 0..10 (quick) / 0..12 (thorough) and for all border/corner class cells (plus their neighbours) of depths up to 29, neighbours(h) (with and without centre), neighbour(h, dir) for the 9 directions and the symmetry of the relation are compared with the integer lattice adjacency model (cells sharing a canonical vertex; label = which vertices are shared). Exact oracle; out-of-range hashes must panic at every depth.",
   note="Trusted: lattice adjacency model R2 (exact seam identification), self-checked for symmetry and the 8/7/6 neighbour counts at depths 0..3."),
 "C05": dict(tech=S, ref="4/C05",
   text="Model checking, stateless shape with a witness oracle: every combination (variant approx / flat / custom, depth 0..3 quick / 0..5 thorough, delta_depth 1..2/3, centre = every node of the 2^-1 / 2^-2 plane lattice + poles, seam points, turned longitudes, generic points; radius = 18 fixed radii from 1e-9 to > pi plus 7/11 factors around every start-depth limit k <= depth+3, the limits being recovered from the public API by bisection) is executed (in two build profiles: release, and release with debug assertions + overflow checks); for each query EVERY cell of the depth is a candidate: a cell with one of its 81 lattice points (or the cone centre strictly inside it) inside the cone by a 1e-9 margin must be covered. Deep tier (depths 8..29): witnesses are points of the cone hashed at the query depth.",
   note="Trusted: R1/R2, the witness construction (sound: it only demands cells that contain a point of the cone), C01 for the deep tier. Cone parameters between alphabet points are outside the bound."),
 "C06": dict(tech=S, ref="4/C06",
   text="Model checking, stateless shape: the same query alphabet and build profiles as C05; every returned entry is checked: a cell flagged full has all its 81 lattice points (vertices and edge points included) within radius + 1e-9; every cell centre is within radius + 2 x (reference largest centre-to-vertex distance of its depth); radius >= pi gives exactly the 12 full base cells; no four full siblings; well-formed.",
   note="Trusted: R1/R2 and the exhaustively computed reference cell sizes (depth <= 8; 1.07/nside beyond)."),
 "C16": dict(tech=S, ref="4/C16",
   text="Model checking, stateless shape: claim 1 on all cells of depth <= 7 / 9 and border-class cells to depth 29 (true centre-to-farthest-vertex distance from R1/R2); claim 2 on ~110 positions x 8 radii x depths 0..4 / 0..6 against EVERY cell whose centre is within the radius, for the scalar and both array forms; claim 3: the 30 limits recovered by bisection are strictly decreasing, best_starting_depth equals 'deepest limit exceeding r' on 12 factors x 30 limits and refuses exactly when has_best_starting_depth says so, and for the characteristic points of the border-class cells of every depth x radii just below each limit, 320 points of the cone lie in the cell of the centre (the subject's own hash) or its 8 lattice neighbours.",
   note="Trusted: R1/R2; 1e-9 relative + 2e-15 absolute slack (positions are known to an ulp of 2 pi). Claim 1 is checked at the cell centre."),
 "C07": dict(tech=E, ref="4/C07",
   text="Model checking, explicit-state shape: states are (depth_max, entry list) values; the initial frontier is the universe of ALL valid MOCs (canonical and unpacked strata, every depth_max) of bounded tree shapes (complete depth-1 trees; depth-2/3/4 trees subdividing the first or last descendant chain; leaf base cells 0, 1/5/11) plus degenerate shapes at depth_max 8/16/29; transitions apply the real not/and/or/xor: layer 1 = every state under not and ALL ordered pairs under and/or/xor, further layers feed new result states back (breadth-first, visited set) until the fix-point or the stated layer bound. Every transition is compared with a range-based set model (map equality, depth_max = max) and, for canonical operands, with the independently computed canonical packed form.",
   note="Trusted: range model R4 in bm.rs with its own decoding of raw values. MOC tree shapes outside the universes are outside the bound."),
 "C08": dict(tech=E, ref="4/C08",
   text="Model checking, explicit-state shape: same search as C07 over universes with all mixes of full/partial flags (complete depth-1 trees over base cells 0 and 11, depth-2 chain trees, degenerate deep shapes): all ordered pairs x {and, or, xor}, not on every state, closure layers; every transition compared with the three-valued pointwise tables (min, max, documented xor table, not swaps absent/full).",
   note="Trusted: three-valued range model R4. Shapes outside the universes are outside the bound."),
 "C09": dict(tech=E, ref="4/C09",
   text="Model checking, explicit-state + stateless shapes: (a) every BMOC returned by ~4900 (quick) / ~7400 (thorough) cone / elliptical-cone / polygon queries over small alphabets (depth <= 3 / 5, all variants incl. delta_depth) ; (b) breadth-first search under not/and/or/xor from the distinct coverage outputs (layer 1 all ordered pairs; later layers every new result paired both ways with every initial output) and the full closure of the complete depth-1 BMOC universe; (c) outputs of the fixed-depth builder on runs / unordered / duplicated pushes x 6 capacities x 2 flags and of the unsafe builder (to_bmoc, from_unordered, packing, lower depth) on every valid sequence of a depth-2 universe. On every such value: depth <= depth_max, hash < 12*4^depth, strictly increasing non-overlapping entries; into_iter, flat_iter, flat_iter_cell (hash, depth, flag, raw value), to_flat_array, deep_size, size_hints (at every step) and to_ranges (sorted, disjoint, non-adjacent) all describe the same deepest cells.",
   note="Trusted: validator and view expansion in bm.rs (independent decoding of raw values). Flattened views expanded below 200000 deepest cells."),
 "C10": dict(tech=S, ref="4/C10",
   text="Model checking over complete index sets: for every depth 0..10 (quick) / 0..12 (thorough) EVERY RING index r and every NESTED cell: from_ring(r) is in range, its lattice centre equals the exact integer centre that the RING order (latitude descending, longitude ascending, 4i cells in polar ring i) assigns to rank r, to_ring inverts it, to_ring(h) equals the rank of the centre of h and from_ring inverts it (=> bijection outright on these depths); RING-scheme and NESTED centres agree to 4e-15. Depths up to 29: ~900 rings per depth (first rings, powers of two +-1, cap/transition/equator classes, 800 spread rings) x first/last/quarter-boundary indices +-2 and border-class NESTED cells; thorough adds EVERY polar ring boundary (north and south) of depths 26 and 29.",
   note="Trusted: exact integer RING model R3 (u128, exact integer square root), self-checked against the lattice model R2 for nside 1..16."),
 "C11": dict(tech=S, ref="4/C11",
   text="Model checking, stateless shape: for EVERY nside in 1..40 (quick) / 1..160 (thorough) every cell: projected centre = exact R3 lattice centre (=> order, 4i / 4 nside ring cardinalities), hash(centre) = cell, sph_coo at 5 offsets; 11 lattice points per cell (vertices, edge mid-points, centre, interior; 3x3 ulp nudges for nside <= 16) through hash / hash_with_dxdy / sph_coo (range, containment in the R3 diamond, offsets in [0,1], inverse); 33 large nside values up to 2^29 (primes, odd, 2^k+-1) on ring-boundary class cells; out-of-range hashes and latitudes rejected.",
   note="Trusted: R3 and R1. nside values not listed, and positions away from the enumerated lattice points, are outside the bound."),
 "C12": dict(tech=S, ref="4/C12",
   text="Model checking, stateless shape: every (polygon, depth 0..6 / 0..9, approx / exact mode) with polygons = regular n-gons (convex), star-shaped variants, thin triangles and kites in every cyclic vertex order, both windings, 2-3 rotations, 7 circumradii 1e-4..0.79 around 15 / 22 centres (lon ~ 0 / 2pi crossings, seams, transition parallels, polar caps short of the poles): result well formed; cell of every vertex covered; every cell flagged full of a convex polygon has its 4 vertices and centre inside (orientation-anchored great-circle test, 1e-9 margin); tightness for circumradius < 0.3; Polygon::contains against the geometric definition on 326 probes per convex polygon (1e-7 margin from the edge circles).",
   note="Trusted: R1/R2/R6. No no-miss claim for polygons; polygons reaching a pole and non star-shaped ones are excluded as in the statement."),
 "C13": dict(tech=S, ref="4/C13",
   text="Model checking, stateless shape: every (depth 0..3 / 0..5, delta_depth 0..1 / 0..2, centre of the cone alphabet incl. poles and seams, semi-major axis from 8 fixed values + 5 factors around each start-depth limit, b/a in {1, 0.5, 0.1}, 4 position angles): well formed, centre cell covered, every cell centre within a + 2 x reference cell size, circular case = the C05 witness oracle over EVERY cell of the depth, a >= pi/2 rejected.",
   note="Trusted: as C05. No no-miss claim for eccentric ellipses (the property makes none)."),
 "C14": dict(tech=S, ref="4/C14",
   text="Model checking, stateless shape: every cell of depths 0..3 / 0..5 x delta_depth 1..4 / 1..6 and border-class cells of depths to 28 x delta_depth 1..3 (incl. depth + delta = 29), through Layer methods and free functions: internal_edge equals the exact closed walk S->E->N->W of the lattice model, internal_edge_sorted its sorted form, 4 corner helpers x 2 forms, 4 side helpers x 3 forms; external_edge = the set of deeper cells outside and adjacent (lattice adjacency), no duplicates, sorted variant; external_edge_struct files each cell under the side (shares 2 canonical vertices with it) or corner (shares only that vertex) it faces.",
   note="Trusted: lattice model R2. delta_depth = 0 is outside the statement's domain."),
 "C15": dict(tech=E, ref="4/C15",
   text="Model checking over push histories: ALL push sequences of length <= 5 over a 13-cell (quick) / 20-cell (thorough) alphabet of aligned runs, parent-boundary crossings and last cells x 7 buffer capacities (1..100, forcing many intermediate merges) x both flags; consecutive runs of every length 1..70/300 from aligned and unaligned starts in 6 push orders x 12 capacities; all subsets of depth-0 cells and of 11 depth-29 cells; and ALL valid entry sequences of a depth-2 universe (with partial flags and unpacked shapes) through to_bmoc_packing / to_lower_depth_bmoc(_packing) for every lower depth. Oracle: set model of the pushed cells / three-valued range model.",
   note="Trusted: range model R4. Longer histories, other cells and capacities are outside the bound (the default capacity of 10^7 is represented by capacity 100 and 1000 > history length)."),
 "C17": dict(tech=S, ref="4/C17",
   text="Model checking, stateless shape: all nodes of the 2^-4 / 2^-7 plane lattice (+ border classes of 6 depths) are used (a) as sphere positions with 5x5 ulp nudges and 7 longitude turns for proj (range, sign, Calabretta-Roukema reference), unproj(proj) and base_cell_from_proj_coo (depth-0 containment), (b) as plane points (x and x-8, 3x3 ulp nudges) for proj(unproj); out-of-domain latitudes and ordinates must panic.",
   note="Trusted: R1 reference formulae; any image of a seam point or of a pole is accepted; round trips are judged by |dlat|, |dlon|cos(lat) and angular distance."),
 "C18": dict(tech=S, ref="4/C18",
   text="Model checking over finite domains: for each z-order implementation the crate can select (get_zoc per depth, LARGE LUT/XOR/BMI) in two builds (with and without BMI2): all (i,j) < 2^d for d <= 8; medium class structured (quick) / all 2^32 pairs at depth 16 and all pairs at depths 9..12 (thorough); large class byte-wise + 1/2-bit patterns squared at every depth 17..29; ij2h, i02h, oj2h, h2ij/ij2i/ij2j against a loop reference. uniq/uniq_ivoa and inverses for all hashes of depth <= 8 / 11 and class hashes to depth 29; depth > 29 rejected.",
   note="Trusted: reference bit interleaving loop; injectivity follows from the checked left inverses. BMI2 leg skipped (and reported) if the CPU lacks it."),
 "C19": dict(tech=S, ref="4/C19",
   text="Model checking, stateless shape: every cell of depths 0..3 / 0..5 and border-class cells (incl. all cells next to the 8 three-cell points) of every deeper depth x 7x7 in-cell offsets (incl. the quadrant lines 0.5 +- 1e-4), and all plane-lattice / border-class positions with ulp nudges and turned longitudes x 30 depths: four finite weights >= 0 summing to 1, a containing cell present, all cells = that cell or lattice neighbours of it, weight 1 at the centre, weighted mean of the centres = the position when the four cells share a base cell, a weight-0 entry for a missing corner.",
   note="Trusted: R1/R2. Tolerances 1e-9 + 64 eps nside (the position is only known to that many cells)."),
 "C20": dict(tech="exhaustive schedule exploration of the real code under a controlled scheduler (preemption-bounded DFS, fresh process per schedule) + stateright explicit-state model generated from the code's recorded hook sequence, every model trace replayed on the implementation", ref="4/C20", engine="c20sched",
   text="Model checking, interleaving shape. Engine (a): 2-3 real threads execute the real get_or_create (Layer table, C2V table directly and through largest_center_to_vertex_distance, first and second use, same and different depths) under a cooperative scheduler at the cfg(cdshealpix_verif) hook points; ALL scheduling choices are explored depth-first (unbounded preemptions for 2 threads x 1 call, bound 1-3 otherwise; a fresh process per schedule, each run on 4 (quick) / 30 (thorough) depths); per schedule: construction counter = 1, identical object for all threads, results through the table = single-threaded reference, no panic, no deadlock, and a vector-clock happens-before monitor (edges: program order + Once release/acquire only) reports any slot read not ordered with the slot write. Engine (b): a stateright model whose per-thread program is generated from the hook sequence RECORDED on the real code, with the slot store split in two (torn observation); always-properties checked over all states; every maximal trace (projected on scheduler decisions) is replayed on the implementation and must produce the same event sequence and counters; for 2 threads x 1 call the number of model traces equals the number of schedules explored by engine (a).",
   note="Trusted: hook placement (scheduling points = accesses to the slot, Once entry/exit, constructor entry/exit); sequential consistency between points; std::sync::Once modelled as blocking while another thread is inside the closure. Weak-memory effects beyond the Once edges and > 3 threads are outside the bound."),
}

SEQ = " Operation sequences: ALL ordered pairs of a call alphabet built from one small value set used in every argument role (and all ordered triples / quadruples of sub-alphabets) are executed as one history on one thread; every result must be bit-identical to the same call made alone in a fresh thread (history independence: memos, caches, scratch state). A final free-running 8-thread stress over the same alphabet, and a race-detector pass (the entry points of the property run by two threads under miri's happens-before data-race detection, every concurrent result compared with the sequential one), are labelled, non-exhaustive corroboration only. If the engine is killed (failed allocation, memory or time cap), ./check isolates the case in flight and reports it, with its replay file, when it violates the property or does not return alone."
ADDED = {
 "C01": " Later additions: Fibonacci-lattice generic positions; exponent sweep around the critical latitudes / meridians; every half turn of longitude in the stated domain; integer degrees; float literals of the current sources as coordinates and centres of cells whose (i, j) are integer literals of the sources." + SEQ,
 "C02": " Later additions: exponent sweep, every half turn of longitude, integer degrees, source-literal positions (as C01)." + SEQ,
 "C03": " Later additions: vertices_map on all 16 direction sets, path_along_cell_side on every (from, to, include) combination, carry-chain cells (coordinates 2^k-1, 2^k, 10 1..1 for every k) at every depth." + SEQ,
 "C04": " Later additions: carry-chain cells (full cross product of the coordinates 2^k-1, 2^k, 10 1..1 in every base cell) and 32 spread interior cells per base cell at every depth." + SEQ,
 "C05": " Later additions: radius-relative centres, centres at the narrowest cells of the start depth (exhaustive search), deep-large (1e4..1e5 cells) and deep-huge (radius / cell > 5e4, ~1e6 cells) strata, band cones (cones entirely inside one latitude band, near edge at 2..60 % of the radius from each critical parallel), vertex-grazing cones (rim 1.2e-3 of the centre-to-vertex distance beyond each vertex of the class cells). The former known finding KF-1 is repaired (fix f1d7abd) and no longer consulted." + SEQ,
 "C06": " Later additions: the deep-large / deep-huge / narrowest-cell / band-cone strata of C05." + SEQ,
 "C07": " Later additions: operand SIZE SWEEP (every n = 1..520 / 4000 for 7 operand shapes), merge-cascade operands (every cascade length 1..29), coverage-sized operands, LONG operands of 2^k-1, 2^k, 2^k+1 entries (k = 10..15 / 20) incl. shapes where the long operand starts first, same-number and consecutive-number cells." + SEQ,
 "C08": " Later additions: the size sweep, merge cascades and coverage-sized operands of C07 with mixed flags." + SEQ,
 "C09": " Later additions: size sweep and merge cascades through all views." + SEQ,
 "C10": " Later additions: EVERY polar ring (last index, first of the next, one generic index) of depths 12..18 (quick) / 14..29 (thorough); carry-chain NESTED cells." + SEQ,
 "C11": " The former known finding KF-2 is repaired (fix 5b063a3). Later additions: nside SWEEP, every nside 1..40000 (quick) / 2^20 (thorough) on 18 key cells + the six public layout constants (n_hash, n_isolatitude_rings, first_hash_*) against R3." + SEQ,
 "C12": " Later additions: deep polygons (depths to 29), longitude representations (+-2pi, +6pi, unwrapped across lon = 0), polar exact-mode polygons, vertex-count sweep (every n = 9..132 / 520, pie slices and regular n-gons)." + SEQ,
 "C13": " Later additions: deep tier (depths 9..29, ellipses 0.3..31 cells across), deep-large tier (thousands of cells across), thin rotated ellipses tens of cells long, tightness evaluated on the descendants of coarse entries. KF-1 repaired (fix f1d7abd)." + SEQ,
 "C14": " Later additions: delta_depth 5, 8, 9, 13, 17 and a sweep of every delta_depth 4..12 / 16; carry-chain cells; the two public direction helpers of lib.rs checked directly and exhaustively on every border cell x outward neighbour; huge delta_depth (21..23): internal edge, side helpers and external edge element by element; periodic coordinates." + SEQ,
 "C15": " Later additions: bulk pushes (~9000), one-tile sets, re-push SIZE SWEEP (a whole tile then every n = 1..340 / 4200 of its cells again), merge-cascade sequences (every cascade length 1..29), long scattered histories of 2^k-1..2^k+1 pushes (k = 10..16 / 20), word-size aliases (runs continued modulo 2^8, 2^16, 2^32), multi-block sequences (several complete blocks of different heights), sibling-group shapes (all 7^4 contents of the four children of a cell).",
 "C16": " Later additions: claim-2 radii up to pi; claim 3 at the NARROWEST cells of depths 0..6 / 0..8 located by exhaustive search; carry-chain cells. KF-1 repaired (fix f1d7abd)." + SEQ,
 "C17": " Later additions: exponent sweep (sphere and plane), integer degrees, float literals of the sources." + SEQ,
 "C18": " Later additions: all ordered pairs of coordinates taken from the integer literals of the current sources; every pair of values of a 12-bit window at the same offset in i and j; periodic coordinates (every v | v<<16, every 1/2/4/8-bit pattern), byte-permutation partners." + SEQ,
 "C19": " Later additions: weighted mean checked for every position (grid coordinates from the reference projection), carry-chain cells." + SEQ,
 "C20": " Later additions: mutual-exclusion probe (a thread held inside the constructor / at the end of the initialisation closure, a free-running second caller must block); a SAMPLED first-use stress in fresh processes (15 free-running threads on one table at a time; pairs of threads making the first use of the Layer and of the cell-size constants of one depth with a stagger, watchdog against calls that never return; labelled non-exhaustive: corroboration for hook-free windows only); a race-detector pass: 10 first-use scenarios (engine/c20miri) under miri's happens-before data-race detection, 3 / 24 scheduler seeds each, which reports an unsynchronised access in a hook-free window in every execution that performs it.",
}

for k, v in ADDED.items():
    CLAIMED[k]['text'] += v
props = [json.loads(l) for l in open(os.path.join(V, "properties.jsonl"))]
m = {
 "version": 1,
 "setup_cmd": "./setup.sh",
 "hooks": {
  "guard": "cdshealpix_verif",
  "enable": "RUSTFLAGS=\"--cfg cdshealpix_verif\" (set by ./check for every engine build; target dirs under /verif/engine)",
  "baseline_off_cmd": "cd /repo && cargo test --workspace --no-fail-fast --offline",
  "source_commits": ["155e549"],
  "add_only": True,
 },
 "engines": [
  {"name": "hpxmc", "path": "engine/hpxmc", "serves_properties": sorted(k for k in CLAIMED if k != "C20"),
   "kind_free_text": "Rust: finite-alphabet enumerators, explicit-state BFS, reference models R1-R6, evidence/replay writer; links the real crate from /repo"},
  {"name": "c20sched", "path": "engine/c20sched", "serves_properties": ["C20"],
   "kind_free_text": "Rust: stateless schedule explorer (parent) + cooperative scheduler and happens-before monitor on the real code (child process per schedule), model-trace replayer"},
  {"name": "c20model", "path": "engine/c20model", "serves_properties": ["C20"],
   "kind_free_text": "Rust + stateright 0.31: abstract model generated from the recorded hook sequence, always-properties, export of all maximal traces"},
 ],
 "checks": [],
 "not_applicable": [],
 "notes": "Driver: ./check <ID> --tier quick|thorough; ./check <ID> --replay <file>. known_findings.json lists no open finding (21 repaired defects under fixed); it is never written at run time.",
}
for p in props:
    i = p["id"]
    if i in CLAIMED:
        c = CLAIMED[i]
        m["checks"].append({
          "property_id": i,
          "quick_cmd": "./check %s --tier quick" % i,
          "thorough_cmd": "./check %s --tier thorough" % i,
          "evidence_file": "/verif/evidence/%s.json" % i,
          "replay_cmd_template": "./check %s --replay {path}" % i,
          "engine": c.get("engine", "hpxmc"),
          "level_claimed": {"category": "model_checking", "text": c["text"], "design_ref": "DESIGN.md section " + c["ref"]},
          "level_note": c["note"],
          "technique": c["tech"],
        })
    else:
        m["not_applicable"].append({"property_id": i, "reason": "check not built yet (work in progress; planned model-checking design in DESIGN.md section 4)"})
json.dump(m, open(os.path.join(V, "MANIFEST.json"), "w"), indent=1)
print("claimed:", len(m["checks"]), "n/a:", len(m["not_applicable"]))
