#!/usr/bin/env python3
"""Regenerates /verif/MANIFEST.json from the table below (claimed checks) + properties.jsonl."""
import json, os
V = os.path.dirname(os.path.dirname(os.path.abspath(__file__)))
S = "bounded-exhaustive enumeration of a finite input alphabet on the real code vs an independent reference model"
E = "explicit-state breadth-first search over API-reachable values on the real code vs a reference model"
CLAIMED = {
 "C01": dict(tech=S, ref="4/C01",
   text="Model checking, stateless shape: every position of a finite alphabet (all nodes of the 2^-4 (quick) / 2^-7 (thorough) lattice of the projection plane = all vertices, edge mid-points and centres of every cell of depth < 4 / 7, all seams, transition parallels, meridians k*pi/4, poles; plus the border classes of each of the 12 base cells at every depth 0..29), each with its (2k+1)^2 one/two-ulp float neighbours and 7 longitude turns in [-8pi, 8pi], is hashed at all 30 depths in two build profiles (release; release with debug assertions and overflow checks); each result is compared with an integer-lattice containment oracle. Exhaustive over that alphabet; floats away from every enumerated border class are outside the bound.",
   note="Trusted: reference projection R1 + lattice model R2 in engine/hpxmc/src/refm.rs (self-checked at start-up), libm, the tolerance 1e-13 plane units (5e-5 of a depth-29 cell)."),
 "C02": dict(tech=S, ref="4/C02",
   text="Model checking, stateless shape: for every position of the same alphabet as C01 the 30 cell numbers are computed and compared bit for bit with the shifted depth-29 number (this implies the property for all pairs of depths). Exact integer oracle, exhaustive over the alphabet.",
   note="Trusted: nothing but integer comparison; positions outside the alphabet are not covered."),
}
props = [json.loads(l) for l in open(os.path.join(V, "properties.jsonl"))]
m = {
 "version": 1,
 "setup_cmd": "./setup.sh",
 "hooks": {
  "guard": "cdshealpix_verif",
  "enable": "RUSTFLAGS=\"--cfg cdshealpix_verif\" (set by ./check for every engine build; target dirs under /verif/engine)",
  "baseline_off_cmd": "cd /repo && cargo test --workspace --no-fail-fast --offline",
  "source_commits": ["155e549"],
  "add_only": True,
 },
 "engines": [
  {"name": "hpxmc", "path": "engine/hpxmc", "serves_properties": sorted(k for k in CLAIMED if k != "C20"),
   "kind_free_text": "Rust: finite-alphabet enumerators, explicit-state BFS, reference models R1-R6, evidence/replay writer; links the real crate from /repo"},
 ],
 "checks": [],
 "not_applicable": [],
 "notes": "Driver: ./check <ID> --tier quick|thorough; ./check <ID> --replay <file>. Known findings: known_findings.json (never written at run time).",
}
for p in props:
    i = p["id"]
    if i in CLAIMED:
        c = CLAIMED[i]
        m["checks"].append({
          "property_id": i,
          "quick_cmd": "./check %s --tier quick" % i,
          "thorough_cmd": "./check %s --tier thorough" % i,
          "evidence_file": "/verif/evidence/%s.json" % i,
          "replay_cmd_template": "./check %s --replay {path}" % i,
          "engine": c.get("engine", "hpxmc"),
          "level_claimed": {"category": "model_checking", "text": c["text"], "design_ref": "DESIGN.md section " + c["ref"]},
          "level_note": c["note"],
          "technique": c["tech"],
        })
    else:
        m["not_applicable"].append({"property_id": i, "reason": "check not built yet (work in progress; planned model-checking design in DESIGN.md section 4)"})
json.dump(m, open(os.path.join(V, "MANIFEST.json"), "w"), indent=1)
print("claimed:", len(m["checks"]), "n/a:", len(m["not_applicable"]))
