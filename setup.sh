#!/bin/sh
# Build the verification engine offline, in every build configuration the checks use.
set -e
cd "$(dirname "$0")"
exec ./check --setup
